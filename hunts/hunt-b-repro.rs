//! Reproducers for hunt-b (property C01: rendering is total).
//! Copy to tests/repro.rs and run:
//!   cargo test --offline --features css --test repro -- --test-threads 2 --nocapture
//! Every #[test] below FAILS (panics inside the library) on the current sources.

use html2text::config;
use html2text::render::{TaggedLine, TextDecorator};

/// A custom decorator which returns only ASCII strings.  The list / quote
/// prefixes contain an ASCII TAB, which is a perfectly ordinary thing to
/// want as a list indent ("-\t") or quote marker (">\t").
#[derive(Clone, Debug)]
struct AsciiDecorator {
    ul: &'static str,
    quote: &'static str,
}

impl TextDecorator for AsciiDecorator {
    type Annotation = ();
    fn decorate_link_start(&mut self, _url: &str) -> (String, Self::Annotation) {
        ("[".into(), ())
    }
    fn decorate_link_end(&mut self) -> String {
        "]".into()
    }
    fn decorate_em_start(&self) -> (String, Self::Annotation) {
        ("*".into(), ())
    }
    fn decorate_em_end(&self) -> String {
        "*".into()
    }
    fn decorate_strong_start(&self) -> (String, Self::Annotation) {
        ("**".into(), ())
    }
    fn decorate_strong_end(&self) -> String {
        "**".into()
    }
    fn decorate_strikeout_start(&self) -> (String, Self::Annotation) {
        ("".into(), ())
    }
    fn decorate_strikeout_end(&self) -> String {
        "".into()
    }
    fn decorate_code_start(&self) -> (String, Self::Annotation) {
        ("`".into(), ())
    }
    fn decorate_code_end(&self) -> String {
        "`".into()
    }
    fn decorate_preformat_first(&self) -> Self::Annotation {}
    fn decorate_preformat_cont(&self) -> Self::Annotation {}
    fn decorate_image(&mut self, _src: &str, title: &str) -> (String, Self::Annotation) {
        (format!("[{}]", title), ())
    }
    fn header_prefix(&self, level: usize) -> String {
        "#".repeat(level) + " "
    }
    fn quote_prefix(&self) -> String {
        self.quote.into()
    }
    fn unordered_item_prefix(&self) -> String {
        self.ul.into()
    }
    fn ordered_item_prefix(&self, i: i64) -> String {
        format!("{}. ", i)
    }
    fn make_subblock_decorator(&self) -> Self {
        self.clone()
    }
    fn finalise(&mut self, _links: Vec<String>) -> Vec<TaggedLine<()>> {
        Vec::new()
    }
}

fn ok_or_too_narrow(r: Result<String, html2text::Error>) {
    match r {
        Ok(_) | Err(html2text::Error::TooNarrow) => {}
        Err(e) => panic!("unexpected error {:?}", e),
    }
}

/// Finding 1a: `<ul>` with an empty item and an unordered-item prefix
/// containing an ASCII control character: "attempt to subtract with overflow"
/// at src/lib.rs:2264 (`size_estimate.min_width - prefix_len`).
#[test]
fn f1a_ul_prefix_with_tab_subtract_overflow() {
    let d = AsciiDecorator { ul: "-\t", quote: "> " };
    ok_or_too_narrow(config::with_decorator(d).string_from_read(&b"<ul><li></li></ul>"[..], 80));
}

/// Finding 1b: `<blockquote>` with a quote prefix containing an ASCII
/// control character: debug assertion
/// `size_estimate.prefix_size == prefix.len()` at src/lib.rs:2238 (and, for an
/// effectively empty quote, the subtraction at src/lib.rs:2239 would underflow
/// once the assertion is compiled out).
#[test]
fn f1b_blockquote_prefix_with_tab_debug_assert() {
    let d = AsciiDecorator { ul: "* ", quote: ">\t" };
    ok_or_too_narrow(
        config::with_decorator(d).string_from_read(&b"<blockquote>hi</blockquote>"[..], 80),
    );
}
