// Reproducers for the CSS findings (property C01: rendering is total and
// returns within a generous time bound).
//
// Copy to tests/ and run with
//   cargo test --offline --features css --test repro -- --test-threads 2 --nocapture
// Each test FAILS on the current sources (after the 60 s watchdog fires; the
// real running times are minutes to centuries, see findings.md).
// The last test needs `--features css_ext` and ABORTS the process (stack
// overflow), so it is compiled only with that feature.

use html2text::config;
use std::sync::mpsc;
use std::time::{Duration, Instant};

/// Run `f` on its own thread (8 MiB stack) and report whether it finished
/// within `limit`.
fn finishes_within<F: FnOnce() + Send + 'static>(limit: Duration, f: F) -> Result<Duration, ()> {
    let (tx, rx) = mpsc::channel();
    let t0 = Instant::now();
    std::thread::Builder::new()
        .stack_size(8 << 20)
        .spawn(move || {
            f();
            let _ = tx.send(());
        })
        .unwrap();
    match rx.recv_timeout(limit) {
        Ok(()) => Ok(t0.elapsed()),
        Err(_) => Err(()),
    }
}

const LIMIT: Duration = Duration::from_secs(60);

/// Finding 1: a ~170 byte selector and a ~290 byte document: exponential
/// backtracking in Selector::do_matches (descendant combinator whose ancestor
/// is in turn reached through a child combinator).
#[test]
fn f1_descendant_then_child_backtracking_is_exponential() {
    let k = 14;
    let css = format!("x > div{} {{color:red;}}", " div > div".repeat(k));
    let html = format!("{}hi", "<div>".repeat(4 * k));
    assert!(css.len() < 200 && html.len() < 300);
    let r = finishes_within(LIMIT, move || {
        let cfg = config::plain().add_css(&css).expect("valid css");
        let _ = cfg.string_from_read(html.as_bytes(), 80);
    });
    assert!(r.is_ok(), "rendering a 290 byte document with a 170 byte stylesheet did not finish in 60 s");
}

/// Finding 1 (same cause, one small fixed rule in a <style> element, no
/// add_css): with three such choice points the total cost grows like depth^4
/// (measured: depth 100 0.7 s, 200 15 s, 400 186 s), so a 5 KB document is enough.
#[test]
fn f1b_fixed_rule_polynomial_in_depth() {
    let html = format!(
        "<style>x > div div > div div > div div{{color:red;}}</style>{}hi",
        "<div>".repeat(1000)
    );
    let r = finishes_within(LIMIT, move || {
        let _ = config::plain().use_doc_css().string_from_read(html.as_bytes(), 80);
    });
    assert!(r.is_ok(), "5 KB document with one 36 byte rule did not finish in 60 s");
}

/// Finding 2: rules x elements x depth.  21 KB of CSS, 18 KB of HTML.
#[test]
fn f2_descendant_rules_times_elements_times_depth() {
    let k = 3000;
    let css = format!("{}x span{{color:red;}}", "x span,".repeat(k - 1));
    let html = format!("{}hi", "<span>".repeat(k));
    let r = finishes_within(LIMIT, move || {
        let cfg = config::plain().add_css(&css).expect("valid css");
        let _ = cfg.string_from_read(html.as_bytes(), 80);
    });
    assert!(r.is_ok(), "21 KB css + 18 KB html did not finish in 60 s");
}

/// Finding 3: rules x elements x siblings for :nth-child.  42 KB of CSS, 12 KB of HTML.
#[test]
fn f3_nth_child_rules_times_elements_times_siblings() {
    let k = 3000;
    let css = format!("{}:nth-child(3){{color:red;}}", ":nth-child(3),".repeat(k - 1));
    let html = format!("{}hi", "<br>".repeat(k));
    let r = finishes_within(LIMIT, move || {
        let cfg = config::plain().add_css(&css).expect("valid css");
        let _ = cfg.string_from_read(html.as_bytes(), 80);
    });
    assert!(r.is_ok(), "42 KB css + 12 KB html did not finish in 60 s");
}

/// Finding 4: a selector list of S selectors with D declarations is expanded
/// into S rulesets each holding a copy of all D declarations (S*D memory), and
/// every matching element merges all S*D of them.  4 KB + 10 KB of CSS, 12 KB of HTML.
#[test]
fn f4_selector_list_times_declarations_times_elements() {
    let (s, d, e) = (2000, 1000, 4000);
    let css = format!("{}p{{{}}}", "p,".repeat(s - 1), "color:red;".repeat(d));
    let html = "<p>".repeat(e);
    let r = finishes_within(LIMIT, move || {
        let cfg = config::plain().add_css(&css).expect("valid css");
        let _ = cfg.string_from_read(html.as_bytes(), 80);
    });
    assert!(r.is_ok(), "14 KB css + 12 KB html did not finish in 60 s");
}

/// Finding 5 (only with the css_ext feature): display:x-raw-dom serialises the
/// subtree with a function which recurses once per nesting level; 20000 nested
/// <span> (120 KB) overflow an 8 MiB stack (3000 are enough for 2 MiB).
/// This test aborts the whole test process.
#[cfg(feature = "css_ext")]
#[test]
fn f5_x_raw_dom_recursion_overflows_stack() {
    let html = format!("<div class=r>{}hi</div>", "<span>".repeat(20000));
    let h = std::thread::Builder::new()
        .stack_size(8 << 20)
        .spawn(move || {
            let cfg = config::plain().add_css(".r{display:x-raw-dom;}").expect("valid css");
            let _ = cfg.string_from_read(html.as_bytes(), 80);
        })
        .unwrap();
    h.join().unwrap();
}
