// No confirmed finding: after code review and ~4.2 million randomized
// executions (see findings.md and harness/), no input in the focus area
// (Unicode / byte-level text handling) made the library violate C01.
// There is therefore deliberately no #[test] in this file.
