// Reproducers for the C10 hunt (focus: route agreement, determinism, reuse).
// Copy to tests/ and run:
//   cargo test --offline --features css --test repro -- --test-threads 1 --nocapture
// Tests 2-4 abort the whole test process (stack overflow), so run them one at a time:
//   cargo test --offline --features css --test repro display_of_deep_render_tree -- --nocapture
use html2text::config;

// ---------------------------------------------------------------------------
// Finding 1 (C10, route disagreement): the staged route documented in
// CHANGELOG.md (0.13.0-alpha.0):
//     html2text::config::plain().render_to_string(html2text::parse(html)?, w)
// does not give the text of from_read(html, w) == config::plain().string_from_read(html, w).
// ---------------------------------------------------------------------------
#[test]
fn parse_then_plain_render_differs_from_from_read() {
    let html = b"<p>Some <em>emphasis</em>, <strong>strong</strong> and <code>code</code></p><dl><dt>Term</dt><dd>Def</dd></dl>";
    let one_shot = html2text::from_read(&html[..], 80).unwrap();
    let one_shot_cfg = config::plain().string_from_read(&html[..], 80).unwrap();
    assert_eq!(one_shot, one_shot_cfg);

    let tree = html2text::parse(&html[..]).unwrap();
    let staged = config::plain().render_to_string(tree, 80).unwrap();
    // one_shot: "Some *emphasis*, **strong** and `code`\n\n*Term*\n  Def\n"
    // staged:   "Some emphasis, strong and code\n\nTerm\n  Def\n"
    assert_eq!(staged, one_shot);
}

fn run_in(stack: usize, f: impl FnOnce() + Send + 'static) {
    std::thread::Builder::new()
        .stack_size(stack)
        .spawn(f)
        .unwrap()
        .join()
        .unwrap();
}
fn deep_divs(n: usize) -> String {
    let mut s = "<div>".repeat(n);
    s.push('x');
    s
}
struct Null;
impl std::fmt::Write for Null {
    fn write_str(&mut self, _: &str) -> std::fmt::Result {
        Ok(())
    }
}

// ---------------------------------------------------------------------------
// Side finding 2 (not C10 proper; input-dependent recursion): Display for RenderTree.
// 5000 nested <div> (25 KB) overflow an 8 MiB stack; 1000 nested overflow 2 MiB.
// Rendering the very same tree works.
// ---------------------------------------------------------------------------
#[test]
fn display_of_deep_render_tree() {
    run_in(8 << 20, || {
        use std::fmt::Write;
        let cfg = config::plain();
        let dom = cfg.parse_html(deep_divs(5000).as_bytes()).unwrap();
        let tree = cfg.dom_to_render_tree(&dom).unwrap();
        assert_eq!(cfg.render_to_string(tree.clone(), 80).unwrap(), "x\n");
        write!(Null, "{}", tree).unwrap(); // stack overflow -> SIGABRT
    });
}

// Side finding 3: derived Debug for RenderTree, 10000 nested <div> (50 KB), 8 MiB stack.
#[test]
fn debug_of_deep_render_tree() {
    run_in(8 << 20, || {
        use std::fmt::Write;
        let cfg = config::plain();
        let dom = cfg.parse_html(deep_divs(10000).as_bytes()).unwrap();
        let tree = cfg.dom_to_render_tree(&dom).unwrap();
        write!(Null, "{:?}", tree).unwrap(); // stack overflow -> SIGABRT
    });
}

// Side finding 4: RcDom::as_dom_string, 10000 nested <div> (50 KB), 8 MiB stack.
#[test]
fn as_dom_string_of_deep_dom() {
    run_in(8 << 20, || {
        let cfg = config::plain();
        let dom = cfg.parse_html(deep_divs(10000).as_bytes()).unwrap();
        let s = dom.as_dom_string(); // stack overflow -> SIGABRT
        assert!(!s.is_empty());
    });
}
