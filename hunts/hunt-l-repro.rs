// Reproducers for the findings in findings.md.
//
// Copy to tests/repro.rs and run:
//   cargo test --offline --features css --test repro -- --test-threads 2 --nocapture
//
// Only the public API is used.  Each #[test] FAILS on the current sources.
use html2text::config;
use std::time::{Duration, Instant};

fn nested(open: &str, depth: usize, line: &str, lines: usize) -> String {
    let mut s = String::with_capacity(open.len() * depth + line.len() * lines);
    for _ in 0..depth {
        s.push_str(open);
    }
    for _ in 0..lines {
        s.push_str(line);
    }
    s
}

fn timed_render(html: &str, width: usize) -> (Duration, usize) {
    // Parse first, so that html5ever's own time for deep nests is not counted.
    let cfg = config::plain_no_decorate();
    let dom = cfg.parse_html(html.as_bytes()).unwrap();
    let tree = cfg.dom_to_render_tree(&dom).unwrap();
    let t0 = Instant::now();
    let out = cfg.render_to_string(tree, width).expect("rendering failed");
    (t0.elapsed(), out.len())
}

/// F1: prefixed blocks (ul / ol / blockquote / dd / h1-h6) nested alternately
/// with annotating inline elements (em, i, strong, code, s, ...) take time
/// lines x depth^2 (cubic in the input) although the output is only
/// lines x depth characters: every nesting level adds one more element to the
/// front of every line with Vec::insert(0, ..).
///
/// 30 KB of input; the same document without the <i> renders ~10x faster and
/// produces byte-for-byte the same text.
#[test]
fn f1_nested_prefix_blocks_with_annotations_take_cubic_time() {
    let depth = 4000;
    let lines = 400;
    let plain = nested("<ul>", depth, "x<br>", lines);
    let annotated = nested("<i><ul>", depth, "x<br>", lines);
    assert!(annotated.len() <= 30_000);

    let (t_plain, len_plain) = timed_render(&plain, 100_000);
    let (t_ann, len_ann) = timed_render(&annotated, 100_000);
    eprintln!("plain: {t_plain:?} ({len_plain} bytes out); annotated: {t_ann:?} ({len_ann} bytes out)");
    // The two documents give the same output.
    assert_eq!(len_plain, len_ann);
    // Measured on the current sources (debug build): plain 1.7 s, annotated 17.6 s;
    // doubling depth and lines multiplies the annotated time by 8
    // (0.35 s, 2.2 s, 17.6 s for depth 1000, 2000, 4000; 8000 x 300 lines,
    // 57 KB, takes minutes).
    assert!(
        t_ann <= t_plain * 3 + Duration::from_secs(2),
        "annotated nest took {t_ann:?}, the same nest without <i> took {t_plain:?}"
    );
}

// ---------------------------------------------------------------------------
// F2: stack exhaustion on deeply nested markup in public, non-rendering entry
// points (Display and Debug for RenderTree, RcDom::as_dom_string).  A stack
// overflow aborts the process, so each check is run in a child process.

fn deep_doc() -> String {
    "<em>".repeat(100_000) + "x"
}

fn run_helper_in_child(name: &str) {
    let exe = std::env::current_exe().unwrap();
    let status = std::process::Command::new(exe)
        .args(["--exact", name, "--ignored", "--test-threads", "1"])
        .status()
        .unwrap();
    assert!(
        status.success(),
        "child process running {name} died: {status:?} (stack overflow)"
    );
}

fn on_8mib_stack<F: FnOnce() -> usize + Send + 'static>(f: F) -> usize {
    std::thread::Builder::new()
        .stack_size(8 << 20)
        .spawn(f)
        .unwrap()
        .join()
        .unwrap()
}

#[test]
#[ignore]
fn helper_display_deep() {
    let n = on_8mib_stack(|| {
        let cfg = config::plain();
        let dom = cfg.parse_html(deep_doc().as_bytes()).unwrap();
        let tree = cfg.dom_to_render_tree(&dom).unwrap();
        format!("{}", tree).len()
    });
    assert!(n > 0);
}

#[test]
#[ignore]
fn helper_debug_deep() {
    let n = on_8mib_stack(|| {
        let tree = html2text::parse(deep_doc().as_bytes()).unwrap();
        format!("{:?}", tree).len()
    });
    assert!(n > 0);
}

#[test]
#[ignore]
fn helper_dom_string_deep() {
    let n = on_8mib_stack(|| {
        let dom = config::plain().parse_html(deep_doc().as_bytes()).unwrap();
        dom.as_dom_string().len()
    });
    assert!(n > 0);
}

/// F2a: `impl Display for RenderTree` recurses once per nesting level.
#[test]
fn f2a_render_tree_display_overflows_stack() {
    run_helper_in_child("helper_display_deep");
}

/// F2b: `#[derive(Debug)]` on RenderTree / RenderNode recurses likewise.
#[test]
fn f2b_render_tree_debug_overflows_stack() {
    run_helper_in_child("helper_debug_deep");
}

/// F2c: `RcDom::as_dom_string` recurses likewise.
#[test]
fn f2c_rcdom_as_dom_string_overflows_stack() {
    run_helper_in_child("helper_dom_string_deep");
}
