// Reproducers for hunt E (HTML parsing stage / DOM bookkeeping and what is built on it).
//
// Copy to tests/repro_e.rs and run ONE TEST AT A TIME (two of them abort the process):
//   cargo test --offline --features css     --test repro_e f1_nth_child_sibling_scan_is_cubic -- --test-threads 2 --nocapture
//   cargo test --offline --features css_ext --test repro_e f2_raw_dom_recursion_overflows_stack -- --test-threads 2 --nocapture
//   cargo test --offline --features css     --test repro_e -- --ignored <name> --nocapture      (borderline / secondary ones)
//
// Only the public API is used.

use html2text::config;
use std::sync::mpsc;
use std::time::{Duration, Instant};

/// FINDING 1 (confirmed, C01 "fails to terminate"): every `:nth-child(..)` selector component
/// rescans the element's siblings from the first child (src/css.rs:124-143), so a parent with N
/// element children and a stylesheet with K nth-child components costs N^2/2 * K sibling visits:
/// cubic in the input length.  Measured (debug build): 2.3 KB 0.8 s, 4.7 KB 7.2 s, 9.3 KB 48.7 s,
/// 18.5 KB 364 s (x7.5-8 per doubling).  The 37 KB input below needs roughly 40 minutes; 200 KB
/// would need days.
#[test]
fn f1_nth_child_sibling_scan_is_cubic() {
    let n = 6000; // <p> siblings (18 KB)
    let k = 1500; // :nth-child(n) components in one selector (19.5 KB)
    let doc = format!(
        "<style>p{} {{ color: red; }}</style>{}",
        ":nth-child(n)".repeat(k),
        "<p>".repeat(n)
    );
    assert!(doc.len() < 40 * 1024);
    let (tx, rx) = mpsc::channel();
    let t = Instant::now();
    std::thread::spawn(move || {
        let r = config::plain()
            .use_doc_css()
            .string_from_read(doc.as_bytes(), 80);
        let _ = tx.send(r.is_ok());
    });
    match rx.recv_timeout(Duration::from_secs(90)) {
        Ok(ok) => eprintln!("finished in {:?} ok={}", t.elapsed(), ok),
        Err(_) => panic!(
            "string_from_read on a 37 KB document did not return within 90 s (cubic :nth-child matching)"
        ),
    }
}

/// Same defect through add_css() (no use_doc_css needed) and the rich/lines route.
#[test]
fn f1b_nth_child_cubic_via_add_css() {
    let n = 6000;
    let k = 1500;
    let css = format!("p{} {{ color: red; }}", ":nth-child(n)".repeat(k));
    let doc = "<p>".repeat(n);
    let (tx, rx) = mpsc::channel();
    std::thread::spawn(move || {
        let r = config::rich()
            .add_css(&css)
            .unwrap()
            .lines_from_read(doc.as_bytes(), 80);
        let _ = tx.send(r.is_ok());
    });
    if rx.recv_timeout(Duration::from_secs(90)).is_err() {
        panic!("lines_from_read (18 KB document, 19.5 KB user CSS) did not return within 90 s");
    }
}

/// FINDING 2 (confirmed, but only in builds with the cargo feature `css_ext`): `display: x-raw-dom`
/// calls RcDom::node_as_dom_string (src/lib.rs:1731), which recurses once per DOM level
/// (src/markup5ever_rcdom.rs:251-279).  A 10^5-deep nest overflows an 8 MiB stack -> SIGABRT.
#[cfg(feature = "css_ext")]
#[test]
fn f2_raw_dom_recursion_overflows_stack() {
    std::thread::Builder::new()
        .stack_size(8 << 20)
        .spawn(|| {
            let doc = format!(
                "<style>i {{ display: x-raw-dom; }}</style><i>{}x",
                "<span>".repeat(100_000)
            );
            let r = config::plain()
                .use_doc_css()
                .string_from_read(doc.as_bytes(), 80);
            eprintln!("ok={}", r.is_ok());
        })
        .unwrap()
        .join()
        .unwrap();
}

fn vm_hwm_mb() -> u64 {
    let s = std::fs::read_to_string("/proc/self/status").unwrap();
    for l in s.lines() {
        if l.starts_with("VmHWM:") {
            return l.split_whitespace().nth(1).unwrap().parse::<u64>().unwrap() / 1024;
        }
    }
    0
}

/// BORDERLINE 3 (measured; classification left to the reader): "reconstruct the active formatting
/// elements" makes html5ever create NB new <b> elements for each of MP paragraphs, so a document
/// of S bytes yields ~S^2/176 DOM nodes (230 B each) and as many render nodes (~1.3 KB each).
/// 14 KB -> 1.25 M nodes, 1.9 GB peak; 29 KB -> 5 M nodes, 7.6 GB, 29 s; extrapolated 100 KB ->
/// ~90 GB (allocation failure = abort on this 62 GB machine); 200 KB -> ~360 GB.
/// The output itself is tiny (MP lines "x"), so this is not "proportional to the requested output".
#[test]
#[ignore]
fn b3_formatting_reconstruction_memory_amplification() {
    let nb = 500;
    let mp = 2500;
    let doc = format!(
        "<p>{}</p>{}",
        (0..nb).map(|i| format!("<b a={i}>")).collect::<String>(),
        "<p>x".repeat(mp)
    );
    assert!(doc.len() < 15 * 1024);
    let before = vm_hwm_mb();
    let out = config::plain().string_from_read(doc.as_bytes(), 80).unwrap();
    let after = vm_hwm_mb();
    eprintln!(
        "input {} bytes, output {} bytes, peak RSS grew {} MB",
        doc.len(),
        out.len(),
        after - before
    );
    assert!(
        after - before < 1024,
        "a 14 KB document needed more than 1 GiB ({} MB)",
        after - before
    );
}

/// SECONDARY 4 (public debug helper, not one of the rendering entry points the property observes):
/// RcDom::as_dom_string recurses per DOM level -> stack overflow (SIGABRT) on a 10^5-deep nest.
#[test]
#[ignore]
fn s4_as_dom_string_deep_overflows_stack() {
    std::thread::Builder::new()
        .stack_size(8 << 20)
        .spawn(|| {
            let doc = "<div>".repeat(100_000);
            let dom = config::plain().parse_html(doc.as_bytes()).unwrap();
            eprintln!("{}", dom.as_dom_string().len());
        })
        .unwrap()
        .join()
        .unwrap();
}

/// SECONDARY 5 (public debug helper): `impl Display for RenderTree` (RenderNode::write_self,
/// src/lib.rs ~1040-1160) recurses per render-tree level -> stack overflow on a 10^5-deep nest.
#[test]
#[ignore]
fn s5_render_tree_display_deep_overflows_stack() {
    std::thread::Builder::new()
        .stack_size(8 << 20)
        .spawn(|| {
            let doc = "<span>".repeat(100_000) + "x";
            let rt = html2text::parse(doc.as_bytes()).unwrap();
            eprintln!("{}", format!("{}", rt).len());
        })
        .unwrap()
        .join()
        .unwrap();
}
