// Reproducers for the findings of hunt F (rich / annotated / decorator paths).
// Copy to tests/ and run:
//   cargo test --offline --features css --test repro -- --test-threads 2 --nocapture
//
// Only the public API is used.

use std::sync::mpsc;
use std::time::{Duration, Instant};

fn nest(open: &str, close: &str, depth: usize, inner: &str) -> String {
    let mut s = String::with_capacity((open.len() + close.len()) * depth + inner.len());
    for _ in 0..depth {
        s.push_str(open);
    }
    s.push_str(inner);
    for _ in 0..depth {
        s.push_str(close);
    }
    s
}

fn render_rich(doc: String, width: usize) -> (f64, usize) {
    let t = Instant::now();
    let lines = html2text::config::rich()
        .lines_from_read(doc.as_bytes(), width)
        .expect("render");
    let out: usize = lines.iter().map(|l| l.chars().count() + 1).sum();
    (t.elapsed().as_secs_f64(), out)
}

/// F-1: a list item (or block quote) holding a one-cell table, nested d deep,
/// takes time cubic in d although the result is only quadratic in d: every
/// nesting level re-measures the display width of every character of
/// everything rendered below it (TaggedLine::pad_to -> TaggedLine::width and
/// TaggedLine::consume -> push_str -> str_width in
/// SubRenderer::append_columns_with_borders).
///
/// 51 KB of input (d = 1000) needs about 85 s in the debug test profile;
/// halving the input divides the time by eight.
#[test]
fn f1_nested_list_table_cubic_time() {
    const OPEN: &str = "<ul><li><table><tr><td>";
    const CLOSE: &str = "</td></tr></table></li></ul>";

    // Growth: d = 250 -> 500 multiplies the output by 4 and the time by 8.
    let (t250, o250) = render_rich(nest(OPEN, CLOSE, 250, "x"), usize::MAX);
    let (t500, o500) = render_rich(nest(OPEN, CLOSE, 500, "x"), usize::MAX);
    println!(
        "d=250: {:.2}s for {} output chars; d=500: {:.2}s for {} output chars; time ratio {:.1}, output ratio {:.1}",
        t250,
        o250,
        t500,
        o500,
        t500 / t250,
        o500 as f64 / o250 as f64
    );

    // Absolute: 51 KB of input must render within a minute.
    let doc = nest(OPEN, CLOSE, 1000, "x");
    assert!(doc.len() <= 200 * 1024);
    println!("input size for d=1000: {} bytes", doc.len());
    let (tx, rx) = mpsc::channel();
    std::thread::Builder::new()
        .stack_size(8 << 20)
        .spawn(move || {
            let r = render_rich(doc, usize::MAX);
            let _ = tx.send(r);
        })
        .unwrap();
    match rx.recv_timeout(Duration::from_secs(60)) {
        Ok((t, out)) => println!("d=1000 finished in {:.2}s, {} output chars", t, out),
        Err(_) => panic!(
            "rendering 51 KB of nested <ul><li><table> did not finish within 60 s \
             (d=250 took {:.2}s, d=500 took {:.2}s: cubic growth)",
            t250, t500
        ),
    }
}
