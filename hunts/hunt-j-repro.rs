//! Reproducer for hunt J (fragment markers and link footnotes).
//!
//! Nothing was found in the focus area proper; the one test below is the
//! secondary (table-nesting) observation described in findings.md.  Copy
//! this file to tests/ and run
//!   cargo test --offline --features css --test repro -- --test-threads 2 --nocapture
//!
//! The test FAILS on the current sources: the call does not return within
//! the 60 s limit (it needs roughly 110 s in a debug build; one more
//! doubling of the 15.5 KB input makes that about a quarter of an hour).

use std::sync::mpsc;
use std::time::{Duration, Instant};

/// 500 nested one-cell tables, each cell starting with a link that also
/// carries an id:  15.5 KB of input, width 100000, default plain config.
#[test]
fn nested_tables_with_links_cubic_time() {
    let doc = "<table><tr><td><a href=u id=i>x".repeat(500);
    assert!(doc.len() < 200 * 1024);
    let (tx, rx) = mpsc::channel();
    let t0 = Instant::now();
    std::thread::Builder::new()
        .stack_size(8 * 1024 * 1024)
        .spawn(move || {
            let r = html2text::config::plain()
                .string_from_read(doc.as_bytes(), 100_000)
                .map(|s| s.len());
            let _ = tx.send(r);
        })
        .unwrap();
    match rx.recv_timeout(Duration::from_secs(60)) {
        Ok(r) => println!("finished in {:?}: {:?}", t0.elapsed(), r),
        Err(_) => panic!(
            "rendering 15.5 KB (500 nested tables with links) at width 100000 \
             did not finish within 60 s"
        ),
    }
}

/// ADJACENT OBSERVATION (not one of the calls the property observes):
/// `impl Display for RenderTree` (RenderNode::write_self, src/lib.rs:1059-1160)
/// recurses once per nesting level, so formatting the tree of a 10^5-deep
/// nest overflows an 8 MiB stack and aborts the process.  Ignored by default
/// because the abort takes the whole test binary down; run it alone with
///   cargo test --offline --features css --test repro -- --ignored --nocapture
#[test]
#[ignore]
fn display_of_deep_render_tree_overflows_stack() {
    let doc = "<span>".repeat(100_000) + "x";
    let h = std::thread::Builder::new()
        .stack_size(8 * 1024 * 1024)
        .spawn(move || {
            let tree = html2text::parse(doc.as_bytes()).unwrap();
            format!("{}", tree).len()
        })
        .unwrap();
    h.join().unwrap();
}
