//! Reproducers for property C01 (rendering is total / terminates within a
//! generous bound), CSS selector matching.  Build with `--features css`.
//!
//!   cargo test --offline --features css --test repro -- --test-threads 2 --nocapture
//!
//! Every test renders one small document (3.6 KB .. 36 KB, far below the
//! 200 KB bound) through the public API only and FAILS when the single call
//! has not returned after 60 s (debug build).  The inputs are sized so that
//! the call needs roughly 2.5 - 3 minutes on the current sources, i.e. the
//! detached worker thread finishes by itself shortly after the test has
//! failed; at 200 KB the same inputs need hours to days (see findings.md).

use std::sync::mpsc;
use std::time::{Duration, Instant};

const LIMIT: Duration = Duration::from_secs(60);

fn render_within_limit(name: &'static str, css: String, html: String) {
    let total = css.len() + html.len();
    let (tx, rx) = mpsc::channel();
    std::thread::Builder::new()
        .stack_size(8 << 20)
        .spawn(move || {
            let t = Instant::now();
            let cfg = html2text::config::plain_no_decorate()
                .add_css(&css)
                .expect("add_css");
            let res = cfg.string_from_read(html.as_bytes(), 80);
            let _ = tx.send((t.elapsed(), res.is_ok()));
        })
        .unwrap();
    match rx.recv_timeout(LIMIT) {
        Ok((elapsed, ok)) => {
            eprintln!("{name}: {total} bytes of input rendered in {elapsed:?} (ok={ok})");
        }
        Err(_) => panic!(
            "{name}: one string_from_read() call on {total} bytes of input (CSS + HTML) \
             had not returned after {LIMIT:?}"
        ),
    }
}

/// Finding 1: a selector mixing child and descendant combinators
/// ("q>span span>span span>...>span") on nested <span>s.  Time grows with the
/// FOURTH power of the input size: 1.5 KB -> 4 s, 2.9 KB -> 75 s,
/// 5.9 KB -> 1110 s.  Here: 1.3 KB of CSS + 2.4 KB of HTML.
#[test]
fn mixed_child_descendant_selector_is_quartic() {
    let css = format!("q>{}span{{color:red;}}", "span span>".repeat(125));
    let html = "<span>".repeat(400);
    render_within_limit("mixed_child_descendant", css, html);
}

/// Finding 2: the specificity of a rule's selector is recomputed for every
/// declaration of every matching rule on every element:
/// elements x declarations x selector components.
/// Here: one rule, 12000 components, 1200 declarations (24 KB), 3960 <p> (12 KB).
#[test]
fn specificity_recomputed_per_declaration_is_cubic() {
    let css = format!("{}{{{}}}", "*".repeat(12_000), "color:red;".repeat(1_200));
    let html = "<p>".repeat(3_960);
    render_within_limit("specificity_per_declaration", css, html);
}

/// Finding 3: :nth-child rescans (and re-matches) all preceding siblings for
/// every element and every rule: rules x elements x siblings.
/// Here: 400 rules (10.8 KB), 3300 sibling <p> (9.9 KB).
#[test]
fn nth_child_sibling_scan_is_cubic() {
    let css = "p:nth-child(1n){color:red;}".repeat(400);
    let html = "<p>".repeat(3_300);
    render_within_limit("nth_child_sibling_scan", css, html);
}

/// Finding 4: a descendant combinator whose ancestor compound never matches
/// walks to the root for every element and every rule:
/// rules x elements x depth.
/// Here: 960 rules (17 KB), <span> nested 2560 deep (15 KB).
#[test]
fn descendant_ancestor_walk_is_cubic() {
    let css = "q span{color:red;}".repeat(960);
    let html = "<span>".repeat(2_560);
    render_within_limit("descendant_ancestor_walk", css, html);
}
