// Reproducers for property C01 (rendering is total) in the table focus area.
//
// No C01 violation was confirmed (see findings.md), so there is no failing
// #[test] for C01 here.
//
// The single test below documents a genuine defect found on the way which is
// NOT a C01 violation (no panic / hang / wrong error; it is a wrong-annotation
// bug): the style pushed for a <table> element is never unwound, so a colour
// set on a table leaks onto everything rendered after the table.  It is
// #[ignore]d so that this file does not fail for C01; run it with
//   cargo test --offline --features css --test repro -- --ignored
use html2text::config;
use html2text::render::RichAnnotation;

#[test]
#[ignore = "not a C01 violation: table style is never unwound (src/lib.rs:2371)"]
fn not_c01_table_colour_leaks_past_the_table() {
    let doc = "<table><tr><td>a</table><p>after</p>";
    let lines = config::rich()
        .add_css("table{color:#f00;}")
        .unwrap()
        .lines_from_read(doc.as_bytes(), 40)
        .unwrap();
    let leaked = lines.iter().flat_map(|l| l.tagged_strings()).any(|ts| {
        ts.s.contains("after")
            && ts
                .tag
                .iter()
                .any(|a| matches!(a, RichAnnotation::Colour(_)))
    });
    assert!(!leaked, "text after the table carries the table's colour");
}
