//! Reproducers for hunt A (property C01, focus: src/render/text_renderer.rs and the
//! sub-renderer width arithmetic that drives it from src/lib.rs).
//!
//! Copy to tests/repro.rs and run
//!   cargo test --offline --features css --test repro -- --test-threads 1 --nocapture
//! Every test FAILS on the current sources.  `z_f2_*` aborts the whole test
//! process (stack overflow), so run it by name; `f3_*` needs about 210 MB.
//! Only the public API is used.

use html2text::config;
use html2text::render::{TaggedLine, TextDecorator};

// ---------------------------------------------------------------------------
// F1: block prefixes of a custom decorator (ASCII strings only)
// ---------------------------------------------------------------------------

/// A decorator whose block prefixes are ASCII but contain a TAB, and/or depend
/// on the nesting level as tracked through `make_subblock_decorator()`.
#[derive(Clone)]
struct Deco {
    depth: usize,
    tab: bool,
    by_depth: bool,
}

impl Deco {
    fn tabbed() -> Deco {
        Deco { depth: 0, tab: true, by_depth: false }
    }
    fn nested() -> Deco {
        Deco { depth: 0, tab: false, by_depth: true }
    }
    fn d(&self) -> usize {
        if self.by_depth {
            self.depth
        } else {
            1
        }
    }
    fn sep(&self) -> &'static str {
        if self.tab {
            "\t"
        } else {
            " "
        }
    }
}

impl TextDecorator for Deco {
    type Annotation = ();
    fn decorate_link_start(&mut self, _url: &str) -> (String, ()) {
        ("[".into(), ())
    }
    fn decorate_link_end(&mut self) -> String {
        "]".into()
    }
    fn decorate_em_start(&self) -> (String, ()) {
        ("*".into(), ())
    }
    fn decorate_em_end(&self) -> String {
        "*".into()
    }
    fn decorate_strong_start(&self) -> (String, ()) {
        ("**".into(), ())
    }
    fn decorate_strong_end(&self) -> String {
        "**".into()
    }
    fn decorate_strikeout_start(&self) -> (String, ()) {
        ("".into(), ())
    }
    fn decorate_strikeout_end(&self) -> String {
        "".into()
    }
    fn decorate_code_start(&self) -> (String, ()) {
        ("`".into(), ())
    }
    fn decorate_code_end(&self) -> String {
        "`".into()
    }
    fn decorate_preformat_first(&self) {}
    fn decorate_preformat_cont(&self) {}
    fn decorate_image(&mut self, _src: &str, title: &str) -> (String, ()) {
        (title.into(), ())
    }
    fn header_prefix(&self, level: usize) -> String {
        // "# " at the top level, "#. " one level down, "#.. " below that ...
        format!("{}{}{}", "#".repeat(level), ".".repeat(self.d() - if self.by_depth { 0 } else { 1 }), self.sep())
    }
    fn quote_prefix(&self) -> String {
        // ">" + separator, or "<level>>" + separator
        if self.by_depth {
            format!("{}>{}", self.depth, self.sep())
        } else {
            format!(">{}", self.sep())
        }
    }
    fn unordered_item_prefix(&self) -> String {
        // "-" + separator; deeper lists get a longer marker when by_depth
        format!("{}{}", "-".repeat(self.d()), self.sep())
    }
    fn ordered_item_prefix(&self, i: i64) -> String {
        format!("{}.{}", i, self.sep())
    }
    fn make_subblock_decorator(&self) -> Self {
        Deco { depth: self.depth + 1, ..self.clone() }
    }
    fn finalise(&mut self, _urls: Vec<String>) -> Vec<TaggedLine<()>> {
        Vec::new()
    }
}

fn ok_or_too_narrow(r: Result<String, html2text::Error>) {
    match r {
        Ok(_) | Err(html2text::Error::TooNarrow) => {}
        Err(e) => panic!("unexpected error {:?}", e),
    }
}

/// quote_prefix() == ">\t" (ASCII).  Panics: `assertion failed:
/// size_estimate.prefix_size == prefix.len()` at src/lib.rs:2238.
#[test]
fn f1a_tab_in_quote_prefix() {
    ok_or_too_narrow(
        config::with_decorator(Deco::tabbed()).string_from_read("<blockquote>hello</blockquote>".as_bytes(), 20),
    );
}

/// unordered_item_prefix() == "-\t" (ASCII), one empty list item.  Panics:
/// `attempt to subtract with overflow` at src/lib.rs:2264.
#[test]
fn f1b_tab_in_list_prefix() {
    ok_or_too_narrow(config::with_decorator(Deco::tabbed()).string_from_read("<ul><li></li></ul>".as_bytes(), 20));
}

/// Printable-ASCII-only decorator whose list marker grows with the nesting
/// level ("- ", "-- ", "--- ").  Panics: `attempt to subtract with overflow`
/// at src/lib.rs:2264.
#[test]
fn f1c_depth_dependent_list_prefix() {
    ok_or_too_narrow(
        config::with_decorator(Deco::nested())
            .string_from_read("<ul><li><ul><li><ul><li></li></ul></li></ul></li></ul>".as_bytes(), 40),
    );
}

/// Printable-ASCII-only decorator whose quote prefix shows the nesting level
/// ("0> ", "1> ", ... "10> ").  Panics at the eleventh level: `assertion
/// failed: size_estimate.prefix_size == prefix.len()` at src/lib.rs:2238.
#[test]
fn f1d_depth_dependent_quote_prefix() {
    let doc = format!("{}x", "<blockquote>q".repeat(11));
    ok_or_too_narrow(config::with_decorator(Deco::nested()).string_from_read(doc.as_bytes(), 100));
}

/// Printable-ASCII-only decorator whose header prefix depends on the nesting
/// level ("# " at the top, "#. " inside one sub-block).  The size estimate is
/// made with `decorator.make_subblock_decorator()` (level 1) but the top-level
/// renderer uses the decorator itself (level 0).  Panics: `assertion failed:
/// prefix.len() == prefix_size` at src/lib.rs:2212.
#[test]
fn f1e_depth_dependent_header_prefix() {
    ok_or_too_narrow(config::with_decorator(Deco::nested()).string_from_read("<h1>Title</h1>".as_bytes(), 40));
}

// ---------------------------------------------------------------------------
// F3 (outside the focus area; resource blow-up): quadratic memory for tables
// ---------------------------------------------------------------------------

fn vm_hwm_kb() -> usize {
    let s = std::fs::read_to_string("/proc/self/status").unwrap_or_default();
    for l in s.lines() {
        if l.starts_with("VmHWM:") {
            return l.split_whitespace().nth(1).unwrap().parse().unwrap();
        }
    }
    0
}

/// 40,011 bytes of input ("<table><tr>" + 5000 x "<td>" + 5000 x "<tr>")
/// make the peak RSS grow by about 200 MB (25000 + 25000, 200,011 bytes:
/// 4.9 GB, and `memory allocation of 200000 bytes failed` + abort under
/// `ulimit -v 3000000`).  The output is only 1.6 MB.
#[test]
fn f3_table_row_col_sizes_quadratic_memory() {
    let (rows, cols) = (5000usize, 5000usize);
    let mut doc = String::from("<table><tr>");
    for _ in 0..cols {
        doc.push_str("<td>");
    }
    for _ in 0..rows {
        doc.push_str("<tr>");
    }
    let before = vm_hwm_kb();
    let out = config::plain().string_from_read(doc.as_bytes(), 80).unwrap();
    let after = vm_hwm_kb();
    eprintln!("input {} bytes, output {} bytes, peak RSS {} KB -> {} KB", doc.len(), out.len(), before, after);
    assert!(
        after.saturating_sub(before) < 64 * 1024,
        "peak RSS grew by {} KB for a {} byte document",
        after - before,
        doc.len()
    );
}

// ---------------------------------------------------------------------------
// F2 (outside the listed observation points): Display of a deep RenderTree
// ---------------------------------------------------------------------------

/// `format!("{}", tree)` (and `{:?}`) of the public `RenderTree` for
/// 10,000 nested <span> overflows an 8 MiB stack: the process aborts with
/// "thread ... has overflowed its stack".
#[test]
fn z_f2_display_of_deep_render_tree_overflows_stack() {
    let doc = format!("{}x", "<span>".repeat(10_000));
    let tree = html2text::parse(doc.as_bytes()).unwrap();
    let len = std::thread::Builder::new()
        .stack_size(8 << 20)
        .spawn(move || format!("{}", tree).len())
        .unwrap()
        .join()
        .unwrap();
    assert!(len > 0);
}
