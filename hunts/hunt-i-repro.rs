//! Reproducers for hunt "i" (white-space / <pre> focus), property C01.
//!
//! Copy to tests/ and run:
//!   cargo test --offline --features css --test repro -- --test-threads 2 --nocapture
//!
//! Both tests FAIL on the current sources: a 15 KB input does not finish
//! within the 30 s deadline in a debug build (it needs 60-75 s here; the
//! 30 KB version of the same input needs 10-12 minutes, the 200 KB version
//! would need days: the cost is cubic in the input length).
#![cfg(feature = "css")]

use html2text::config;
use std::sync::mpsc;
use std::time::{Duration, Instant};

/// Render `doc` (plain decorator, use_doc_css, width 80) on another thread
/// and panic if it has not returned after `limit`.
fn must_finish_within(name: &str, doc: String, limit: Duration) {
    let (tx, rx) = mpsc::channel();
    let len = doc.len();
    std::thread::Builder::new()
        .stack_size(8 << 20)
        .spawn(move || {
            let t = Instant::now();
            let res = config::plain()
                .use_doc_css()
                .string_from_read(doc.as_bytes(), 80)
                .map(|s| s.len());
            let _ = tx.send((t.elapsed(), res.map_err(|e| format!("{e:?}"))));
        })
        .unwrap();
    match rx.recv_timeout(limit) {
        Ok((elapsed, res)) => {
            println!("{name}: {len} bytes rendered in {elapsed:?}: {res:?}");
            assert!(matches!(res, Ok(_)) || res == Err("TooNarrow".to_string()));
        }
        Err(_) => panic!(
            "{name}: rendering a {len} byte document did not finish within {limit:?} (effective hang; cubic time)"
        ),
    }
}

/// Finding 1: rules x elements x nesting depth.
/// 500 rules `x span{white-space:pre;}` (as one selector list) and 2000
/// nested <span>s: every (rule, element) pair walks the whole ancestor chain
/// looking for an `x` that is not there.
#[test]
fn css_descendant_rules_times_elements_times_depth() {
    let rules = 500;
    let depth = 2000;
    let sels = vec!["x span"; rules].join(",");
    let doc = format!(
        "<style>{sels}{{white-space:pre;}}</style>{}t",
        "<span>".repeat(depth)
    );
    assert!(doc.len() < 16 * 1024);
    must_finish_within("descendant", doc, Duration::from_secs(30));
}

/// Finding 2: rules x elements x number of siblings.
/// 500 rules `:nth-child(2){white-space:pre;}` and 2000 sibling <br>s: every
/// (rule, element) pair walks the parent's children from the first one.
#[test]
fn css_nth_child_rules_times_elements_times_siblings() {
    let rules = 500;
    let siblings = 2000;
    let sels = vec![":nth-child(2)"; rules].join(",");
    let doc = format!(
        "<style>{sels}{{white-space:pre;}}</style>{}",
        "<br>".repeat(siblings)
    );
    assert!(doc.len() < 16 * 1024);
    must_finish_within("nth-child", doc, Duration::from_secs(30));
}
