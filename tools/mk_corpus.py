#!/usr/bin/env python3
"""Writes the hand-picked corpus scenarios under /verif/corpus/<prop>/.

Every quick and thorough run executes these first.  Each entry is the
(minimised or hand-simplified) scenario of a finding that was fixed in /repo,
or a boundary case; on the repaired tree all of them must pass, so a
regression is reported whether or not the seeded batch revisits it.
"""
import json, os

ROOT = os.path.join(os.path.dirname(os.path.abspath(__file__)), "..", "corpus")

def cfg(deco="Plain", **kw):
    c = {"decorator": {"kind": deco}}
    c.update(kw)
    return c

def plan(steps=None, cut_at=None, err_at=None):
    return {"steps": steps or [], "cut_at": cut_at, "err_at": err_at}

def scen(prop, name, doc, config, ops, stack_kib=8192, fuel=None, note=""):
    if isinstance(doc, str):
        doc = {"kind": "Bytes", "bytes": doc}
    s = {
        "property": prop,
        "class": "corpus:" + name,
        "run_seed": 0,
        "doc": doc,
        "config": config,
        "threads": [{"stack_kib": stack_kib, "ops": ops, "preempt_ticks": []}],
        "sched": {"policy": "RoundRobin"},
        "fuel": fuel or (2_000_000_000 if prop == "C01" else 800_000_000),
        "corrupt_events": 0,
    }
    d = os.path.join(ROOT, prop)
    os.makedirs(d, exist_ok=True)
    with open(os.path.join(d, name + ".json"), "w") as f:
        json.dump({"note": note, **s}, f, indent=1, ensure_ascii=False)
        f.write("\n")

def nest(open_, depth, inner="x", close="", closes=0, prefix="", suffix=""):
    return {"kind": "Nest", "prefix": prefix, "open": open_, "depth": depth,
            "inner": inner, "close": close, "closes": closes, "suffix": suffix}

def one(op, w, p=None):
    return {"op": op, "w": w, "plan": p or plan()}

def staged(render="RenderString", w=80, clone=False, dropdom=False, p=None):
    ops = [{"op": "ParseDom", "plan": p or plan(), "dom": 0}, {"op": "BuildTree", "dom": 0, "tree": 0}]
    if dropdom:
        ops.append({"op": "DropDom", "dom": 0})
    t = 0
    if clone:
        ops.append({"op": "CloneTree", "from": 0, "to": 1})
        t = 1
    ops.append({"op": render, "tree": t, "w": w, "consume": True})
    return ops

# ------------------------------------------------------------------ C10
FEFF = "﻿"
scen("C10", "feff-mid-document-1-byte-chunks", "<p>ab" + FEFF + "cd</p>", cfg("Plain"),
     [one("OneShotString", 20, plan([{"Data": 1}] * 40)), one("OneShotLines", 20)],
     note="fixed c05eae9: U+FEFF dropped when a read chunk starts with it")
scen("C10", "feff-at-offset-4096", "<p>" + "a" * 4093 + FEFF + "b</p>", cfg("Trivial"),
     [one("OneShotString", 80, plan([{"Data": 4000}])), one("OneShotString", 80)],
     note="fixed c05eae9: with a byte slice the character at offset 4096 was dropped, at offset 4000 kept")
scen("C10", "feff-split-inside-the-character", "<p>wrap" + FEFF + "x</p>", cfg("Rich"),
     [{"op": "ParseDom", "plan": plan([{"Data": 8}, {"Data": 1}, {"Data": 1}]), "dom": 0},
      {"op": "BuildTree", "dom": 0, "tree": 0},
      {"op": "RenderLines", "tree": 0, "w": 2, "consume": False},
      {"op": "RenderColoured", "tree": 0, "w": 30, "consume": True}],
     note="fixed c05eae9")
scen("C10", "crlf-entity-tag-split", "<p>a\r\nb &amp; &#x5bbd; <em>c</em><!-- x --></p><pre>l1\r\nl2</pre>", cfg("Plain"),
     [one("OneShotString", 20, plan([{"Data": 5}, {"Data": 6}, {"Data": 3}, {"Data": 1}, {"Data": 1}, {"Data": 2}] + [{"Data": 1}] * 80)),
      one("OneShotLines", 20, plan([{"Data": 4}, "Eintr", "Eintr", {"Scribble": 7}]))],
     note="boundary case: CR|LF, entity, tag and comment split across chunks; EINTR; scribbled buffer")
scen("C10", "reuse-tree-many-widths-with-errors",
     "<table><tr><td>one two three</td><td>宽宽 four</td></tr></table><ul><li>a <a href='u'>l</a></li></ul>", cfg("Plain"),
     [{"op": "ParseDom", "plan": plan(), "dom": 0}, {"op": "BuildTree", "dom": 0, "tree": 0}, {"op": "DropDom", "dom": 0},
      {"op": "RenderString", "tree": 0, "w": 40, "consume": False},
      {"op": "RenderString", "tree": 0, "w": 0, "consume": False},
      {"op": "RenderString", "tree": 0, "w": 1, "consume": False},
      {"op": "CloneTree", "from": 0, "to": 1},
      {"op": "RenderLines", "tree": 1, "w": 7, "consume": False},
      {"op": "RenderString", "tree": 0, "w": 40, "consume": False},
      {"op": "RenderString", "tree": 1, "w": 7, "consume": True},
      {"op": "RenderString", "tree": 0, "w": 200, "consume": True}],
     note="boundary case: the history of the property statement (TooNarrow in between, clone, out of order)")

# ------------------------------------------------------------------ C01
I64MAX = "9223372036854775807"
scen("C01", "ol-start-i64-max", '<ol start="%s"><li>a<li>b</ol>' % I64MAX, cfg("Plain"), [one("OneShotString", 20)],
     note="fixed de9fb79: i64 overflow in ordered list numbering")
scen("C01", "ol-start-i64-min-no-items", '<ol start="-9223372036854775808">x</ol>', cfg("Rich"), [one("OneShotLines", 20)],
     note="fixed de9fb79")
scen("C01", "colspan-u64-max", '<table><td><td colspan="18446744073709551615">', cfg("PlainNoDecorate"), [one("OneShotLines", 1)],
     note="fixed bf79ca6: usize overflow summing column spans")
scen("C01", "pre-tab-zero-wrap-width", "<pre>\t", cfg("PlainNoDecorate", max_wrap_width=0), [one("OneShotLines", 1)],
     note="fixed baf14ba: tab stop loop never ends in a zero-width block")
scen("C01", "pre-tab-zero-wrap-width-overflow-allowed", "<pre>a\tb</pre>", cfg("Plain", max_wrap_width=0, allow_width_overflow=True),
     [one("OneShotString", 10)], note="fixed baf14ba")
scen("C01", "nested-ul-pre-tab-min-wrap-0", "<ul><li><ul><li><ul><li><ul><li><pre>\tx</pre>", cfg("Plain", min_wrap_width=0),
     [one("OneShotString", 8)], note="fixed baf14ba (the original report)")
scen("C01", "pre-spaces-zero-wrap-width", "<pre>    I\n  <span>item\t</span>world   x</pre>", cfg("Rich", max_wrap_width=0),
     [one("OneShotColoured", 86)], note="fixed aa43b10: whitespace fill loop never ends in a zero-width block")
scen("C01", "pre-spaces-zero-wrap-width-overflow-allowed", "<pre>a     b     c</pre>", cfg("Trivial", max_wrap_width=0, allow_width_overflow=True),
     [one("OneShotString", 6)], note="fixed aa43b10")
scen("C01", "emoji-modifier-overflow-width-1", "\U0001F44D\U0001F3FD\nm", cfg("Rich", allow_width_overflow=True),
     [one("OneShotColoured", 1)], note="fixed 063ba54: width - line.len underflow")
scen("C01", "sup-emoji-modifier-hard-wrap", "<sup>\U0001F44D\U0001F3FD<c", cfg("PlainNoDecorate", allow_width_overflow=True, max_wrap_width=0),
     staged("RenderString", 1, clone=True), note="fixed 8b12021: w - wpos underflow in the hard-wrap loop")
scen("C01", "raw-mode-width-usize-max", "<table><td>", cfg("PlainNoDecorate", raw_mode=True),
     [one("OneShotLines", 18446744073709551615)], note="fixed 7542cdc: col_width + colspan - 1 overflow")
scen("C01", "css-hash-delimiter-loop", "", cfg("Rich", css=[{"agent": True, "text": "@x #,"}]),
     [{"op": "ParseDom", "plan": plan(), "dom": 0}], note="fixed f7968ec: CSS tokenizer returned '#' without consuming it")
scen("C01", "css-hash-delimiter-loop-doc-style", "<style>@media ## { p { color: red } }</style><p>x", cfg("Rich", use_doc_css=True),
     [one("OneShotLines", 20)], note="fixed f7968ec")
scen("C01", "deep-span-width-0-small-stack", nest("<span>", 100000), cfg("Plain"), [one("OneShotString", 0)], stack_kib=2048,
     note="fixed 8b81a88: recursive drop of the whole tree on the width == 0 early return")
scen("C01", "deep-sibling-after-too-narrow", nest("<span>", 100000, prefix="<p>宽</p><p>y</p>"), cfg("Plain"), [one("OneShotString", 1)],
     stack_kib=2048, note="fixed 8b81a88: recursive drop of the unvisited subtree on the TooNarrow path")
scen("C01", "deep-non-li-child-of-ol", nest("<span>", 100000, prefix="<ol><li>a</li>"), cfg("Plain"), [one("OneShotString", 40)],
     stack_kib=2048, note="fixed 8b81a88: recursive drop of discarded children while building the tree")
scen("C01", "deep-caption", nest("<span>", 60000, prefix="<table><caption>", suffix="</caption><tr><td>x</td></tr></table>"),
     cfg("Trivial"), [one("OneShotLines", 40)], stack_kib=2048, note="fixed 8b81a88")
scen("C01", "deep-clone-small-stack", nest("<sup>", 30000), cfg("Plain"), staged("RenderString", 80, clone=True, dropdom=True),
     stack_kib=2048, note="fixed 7cae508: recursive derived Clone")
scen("C01", "deep-free-parse-drop", nest("<sup>", 30000), cfg("PlainNoDecorate"),
     [{"op": "FreeParse", "plan": plan(), "tree": 0}], stack_kib=2048, note="fixed 8b81a88: dropping an unrendered tree")
scen("C01", "selector-descendant-chain-exponential", nest("<span>", 40, close="</span>", closes=40),
     cfg("Rich", css=[{"agent": False, "text": "x span span span span span span span span span span { color: red; }"}]),
     [one("OneShotLines", 80)], note="fixed 9f192f7: exponential backtracking over descendant combinators")
scen("C01", "selector-descendant-deep-recursion", nest("<span>", 60000, inner="<b>x</b>", prefix="<style>x b{color:red;}</style>"),
     cfg("Plain", use_doc_css=True), [one("OneShotString", 80)], stack_kib=2048,
     note="fixed 9f192f7: one stack frame per ancestor")
scen("C01", "selector-child-and-descendant-mix", nest("<div class=c1><p>", 60, inner="<span class=c0>x</span>"),
     cfg("Rich", css=[{"agent": False, "text": "x div > p div > p div > p div > p span.c0 { color: red } div > p span { color: #00f }"}]),
     [one("OneShotColoured", 60)], note="boundary case for 9f192f7: child combinators still need the other ancestors")
scen("C01", "nested-strikeout-cubic", nest("<s>a", 8000, inner="b"), cfg("Plain"), [one("OneShotString", 40)],
     note="fixed e847a0f: one strikeout filter per nesting level")
scen("C01", "nth-child-coefficient-beyond-i32", "<style>:nth-child(0):nth-child(2474836647n+2){color:red;}</style><p>x",
     cfg("Rich", use_doc_css=True), staged("RenderLines", 20), note="fixed (nth-child fix): unwrap of a failed i32 parse")
scen("C01", "nth-child-b-near-i32-min", "<ul><li>a<li>b</ul>",
     cfg("Rich", css=[{"agent": False, "text": "li:nth-child(n-2147483647){color:red;}"}]), [one("OneShotLines", 20)],
     note="fixed (nth-child fix): idx - b overflowed while matching")
scen("C01", "emoji-presentation-sequence-at-line-end", "<p>one two aaaaaaaaa\u263a\ufe0f three</p>", cfg("Plain"),
     [one("OneShotString", 10)],
     note="fixed (width fix): the word's width as a string (11) and as characters (10) disagree; lineleft -= w underflowed")
scen("C01", "flag-sequence-width-1", "\u00a9 \U0001f3f3\ufe0f", cfg("Rich"), staged("RenderString", 1),
     note="fixed (width fix): found by C01 quick, same subtraction")
scen("C01", "variation-selector-zero-width-block-loop", "<p>\u263a\ufe0f y</p>",
     cfg("Rich", allow_width_overflow=True, max_wrap_width=0, no_table_borders=True), [one("OneShotColoured", 20)],
     note="fixed (width fix): hard wrap never finished (string width 2, characters 1): endless empty lines until memory ran out")
scen("C01", "table-cell-emoji-sequence-line-width", "<table><tr><td>\u263a\ufe0f a</td><td>x</td></tr></table><p>\u0644\u0627 \u0644\u0627</p>",
     cfg("Plain", pad_block_width=True), [one("OneShotString", 20), one("OneShotLines", 7)],
     note="boundary case for the width fix: sequences measured differently as strings and as characters, in padded cells and blocks")
scen("C01", "compound-selector-70000-classes", "<p class=c0>x</p><p>y</p>",
     cfg("Plain", css=[{"agent": False, "text": ".c0" * 70000 + " { color: red; }"}]), [one("OneShotString", 20)], stack_kib=2048,
     note="fixed (matcher fix): one stack frame per selector component; u16 specificity counters overflowed")
scen("C01", "child-chain-selector-3000", nest("<div>", 3000, inner="<b class=c0>x</b>"),
     cfg("Rich", css=[{"agent": True, "text": " > ".join(["div"] * 2999) + " > b { color: red; }"}]), [one("OneShotLines", 20)], stack_kib=256,
     note="fixed (matcher fix): one stack frame per combinator")
scen("C01", "alternating-combinators-selector", nest("<div><p>", 400, inner="<b class=c0>x</b>"),
     cfg("Rich", css=[{"agent": False, "text": "x " + " ".join(["div > p"] * 300) + " b { color: red; } " + " ".join(["div > p"] * 350) + " b { color: #00f; }"}]),
     [one("OneShotLines", 20)], stack_kib=256,
     note="boundary case for the matcher fix: choices kept in a vector instead of on the stack")
scen("C01", "selector-descendant-then-child-exponential", nest("<div>", 56, inner="hi"),
     cfg("Plain", css=[{"agent": False, "text": "x > div" + " div > div" * 14 + " {color:red;}"}]), [one("OneShotString", 80)],
     note="fixed (matcher memo fix): every combination of ancestors was retried for a descendant combinator reached through a child combinator; 167 bytes of CSS on 56 nested divs did not return")
scen("C01", "selector-descendant-then-child-in-style-element",
     nest("<div>", 500, inner="hi", prefix="<style>x > div div > div div > div div{color:red;}</style>"),
     cfg("Rich", use_doc_css=True), [one("OneShotLines", 80)],
     note="fixed (matcher memo fix): one 36-byte rule, depth^4 steps")
scen("C01", "selector-list-25000-by-12000-declarations", "<a>x</a>",
     cfg("Plain", css=[{"agent": False, "text": "p," * 24999 + "p{" + "color:red;" * 12000 + "}"}]), [one("OneShotString", 20)],
     note="fixed (shared declarations fix): every selector of a list got its own copy of the declarations (25000 x 12000 entries, > 8 GB for 170 KB of CSS that matches nothing); reported by a code-reading sub-agent, not reached by the generated workload")
scen("C01", "hard-error-at-every-stage", "<p>hello <b>world</b></p>" * 300, cfg("Plain"),
     [one("OneShotString", 40, plan([{"Data": 100}, "Eintr"], err_at=[4096, "ConnectionReset"])),
      one("OneShotLines", 40, plan(err_at=[0, "WouldBlock"])),
      one("OneShotString", 40, plan([{"Data": 1}], err_at=[7800, "TimedOut"]))],
     note="boundary case: hard errors instead of data, at the buffer boundary and instead of EOF")
scen("C01", "selector-descendant-child-alternation-quartic", nest("<span>", 480, inner="x"),
     cfg("Plain", css=[{"agent": False, "text": "q>" + "span span>" * 150 + "span{color:red;}"}]), [one("OneShotString", 80)],
     note="fixed b1279c8: the matcher stepped over every already tried ancestor one at a time (elements x steps x depth^2 = 1.6e10 here); reported by a code-reading sub-agent (hunt-k), the generated workload reaches the shape but not this scale")
scen("C01", "specificity-per-declaration-cubic", "<p>" * 2000,
     cfg("PlainNoDecorate", css=[{"agent": False, "text": "*" * 6000 + "{" + "color:red;" * 600 + "}"}]), [one("OneShotString", 80)],
     note="fixed 0b1ebce: the rule's specificity (a walk over 6000 components) was recomputed for each of 600 declarations on each of 2000 elements (7e9 steps); reported by a code-reading sub-agent (hunt-k)")
print("corpus written")
