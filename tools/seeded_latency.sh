#!/bin/sh
# tools/seeded_latency.sh : for every seeded change, how early does the quick
# check see it?  Prints the run index of the first violating run (from the
# replay notes), the signature and the elapsed time.
for d in /verif/seeded/${1:-}*/; do
    name=$(basename "$d")
    prop=$(python3 -c "import json;print(json.load(open('$d/meta.json'))['property'])")
    out=$(/verif/tools/try_seeded.sh "$d" $prop quick 2>&1)
    first=$(grep -aho "run index [0-9]*" /tmp/h2tsim-seeded-out/replays/*.json 2>/dev/null | awk '{print $3}' | sort -n | head -1)
    sig=$(echo "$out" | grep -a -m1 "signature=" | sed 's/.*signature=//' | cut -c1-60)
    el=$(echo "$out" | grep -ao "elapsed [0-9]*s")
    nviol=$(echo "$out" | grep -ac "^VIOLATION")
    printf "%-48s %s first_violating_run=%-6s violations_reported=%-2s %s [%s]\n" "$name" "$prop" "${first:-none}" "$nviol" "$el" "$sig"
done
