#!/bin/sh
# tools/sim_against.sh <repo-dir> <h2tsim args...>
# Builds the simulator against another checkout of html2text (a scratch
# worktree outside /repo and /verif) in a temporary crate directory and runs
# it with H2TSIM_VERIF_DIR pointing at a scratch output directory, so that
# /verif/evidence and /verif/replays are not touched.  Used for sensitivity
# experiments only; the registered checks always build against /repo.
set -e
REPO=$1; shift
SCR=${H2TSIM_SCRATCH:-/tmp/h2tsim-against-$(basename "$REPO")}
mkdir -p "$SCR/crate" "$SCR/out/evidence" "$SCR/out/replays"
sed "s|path = \"/repo\"|path = \"$REPO\"|" /verif/sim/Cargo.toml > "$SCR/crate/Cargo.toml"
cp /verif/sim/Cargo.lock "$SCR/crate/Cargo.lock"
rm -rf "$SCR/crate/src" "$SCR/crate/.cargo"
cp -r /verif/sim/src "$SCR/crate/src"
cp -r /verif/sim/.cargo "$SCR/crate/.cargo"
[ -e "$SCR/out/corpus" ] || ln -s /verif/corpus "$SCR/out/corpus"
[ -e "$SCR/out/known_findings.json" ] || { [ -e /verif/known_findings.json ] && ln -s /verif/known_findings.json "$SCR/out/known_findings.json"; } || true
( cd "$SCR/crate" && CARGO_NET_OFFLINE=true cargo build --release --offline >"$SCR/build.log" 2>&1 ) || { tail -30 "$SCR/build.log"; exit 2; }
H2TSIM_VERIF_DIR="$SCR/out" exec "$SCR/crate/target/release/h2tsim" "$@"
