#!/bin/sh
# tools/check_corpus_sensitivity.sh
# Runs every corpus scenario against a scratch worktree of the PRE-FIX tree
# (the first hooks commit, before any 'fix:' commit) and against /repo, and
# prints one line per scenario.  Scenarios that record a fixed finding must
# fail on the pre-fix tree and pass on /repo; boundary cases pass on both.
PRE=/tmp/h2t-prefix
# (all hooks commits which do not depend on a fix are cherry-picked onto it, so
# that the current simulator builds against it)
if [ ! -d "$PRE" ]; then
    git -C /repo worktree add -q --detach "$PRE" b48ad50c88587e65942ea521bf8dbd6d1c0d8c16
    for c in 0451152 1ac9344 9a9dc9f; do git -C "$PRE" cherry-pick -q $c || exit 2; done
fi
sed -i 's/^version = "0.14.3"/version = "0.14.2"/' "$PRE/Cargo.toml"
H2TSIM_SCRATCH=/tmp/h2tsim-prefix /verif/tools/sim_against.sh "$PRE" gen C01 1 0 quick >/dev/null || exit 2
( cd /verif/sim && cargo build --release --offline >/dev/null 2>&1 ) || exit 2
OLD=/tmp/h2tsim-prefix/crate/target/release/h2tsim
NEW=/verif/sim/target/release/h2tsim
for f in /verif/corpus/C01/*.json /verif/corpus/C10/*.json; do
    python3 - "$f" > /tmp/h2tsim-corpus-case.json <<'PY'
import json,sys
s=json.load(open(sys.argv[1])); s['fuel']=min(s['fuel'],50000000); print(json.dumps(s))
PY
    o=$(timeout 300 $OLD run-scenario /tmp/h2tsim-corpus-case.json 2>&1); orc=$?
    osig=$(echo "$o" | grep '^R ' | sed 's/.*"signature":"\([^"]*\)".*/\1/' | cut -c1-60)
    case "$o" in *"overflowed its stack"*) osig="abort:stack_overflow";; esac
    [ $orc -eq 124 ] && osig="hang (300 s timeout)"
    echo "$o" | grep -q '^R null' && osig="pass"
    n=$(timeout 300 $NEW run-scenario "$f" 2>&1 | grep '^R ' | cut -c1-40)
    [ "$n" = "R null" ] && n=pass
    printf "%-52s pre-fix: %-62s /repo: %s\n" "$(basename $f .json)" "${osig:-died rc=$orc}" "$n"
done
rm -f /tmp/h2tsim-corpus-case.json
