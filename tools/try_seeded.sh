#!/bin/sh
# tools/try_seeded.sh <seeded-dir> <C01|C10> [tier] [extra h2tsim args]
# Applies a seeded change to /repo, runs one registered check against it
# (evidence and replays redirected to a scratch directory so that the
# committed evidence is not overwritten), and always reverts /repo.
D=$(cd "$1" && pwd); PROP=$2; TIER=${3:-quick}; shift; shift; [ $# -gt 0 ] && shift
OUT=/tmp/h2tsim-seeded-out
rm -rf "$OUT"; mkdir -p "$OUT/evidence" "$OUT/replays"
ln -s /verif/corpus "$OUT/corpus"; ln -s /verif/known_findings.json "$OUT/known_findings.json"
git -C /repo diff --quiet || { echo "/repo has uncommitted changes; refusing"; exit 2; }
git -C /repo apply "$D/patch.diff" || exit 2
START=$(date +%s)
H2TSIM_VERIF_DIR="$OUT" /verif/bin/check "$PROP" "$TIER" "$@" 2>&1 | cut -c1-400 | grep -v "^  (" | head -40
RC=$?
git -C /repo checkout -- .
( cd /verif/sim && cargo build --release --offline >/dev/null 2>&1 )   # do not leave a binary built from the seeded tree behind
echo "elapsed $(( $(date +%s) - START ))s; /repo reverted: $(git -C /repo status --short | wc -l) modified files"
