#[path = "../../../sim/src/prng.rs"]
#[allow(dead_code)]
mod prng;
#[path = "../../../sim/src/scenario.rs"]
#[allow(dead_code)]
mod scenario;
#[path = "../../../sim/src/gen.rs"]
#[allow(dead_code)]
mod gen;

#[path = "../../../sim/src/seeds.rs"]
#[allow(dead_code)]
mod seeds;

use prng::Rng;
use scenario::{ConfigSpec, Deco};
use std::panic::{catch_unwind, AssertUnwindSafe};

macro_rules! render_with {
    ($krate:ident, $spec:expr, $doc:expr, $w:expr) => {{
        use $krate::config;
        fn apply<D: $krate::render::TextDecorator>(mut c: config::Config<D>, spec: &ConfigSpec) -> Option<config::Config<D>> {
            if spec.do_decorate { c = c.do_decorate(); }
            if let Some(b) = spec.link_footnotes { c = c.link_footnotes(b); }
            if spec.allow_width_overflow { c = c.allow_width_overflow(); }
            if let Some(k) = spec.min_wrap_width { c = c.min_wrap_width(k); }
            if let Some(k) = spec.max_wrap_width { c = c.max_wrap_width(k); }
            if spec.pad_block_width { c = c.pad_block_width(); }
            if let Some(b) = spec.raw_mode { c = c.raw_mode(b); }
            if spec.no_table_borders { c = c.no_table_borders(); }
            if spec.no_link_wrapping { c = c.no_link_wrapping(); }
            if let Some(b) = spec.unicode_strikeout { c = c.unicode_strikeout(b); }
            if spec.use_doc_css { c = c.use_doc_css(); }
            for css in &spec.css {
                c = if css.agent { c.add_agent_css(&css.text).ok()? } else { c.add_css(&css.text).ok()? };
            }
            Some(c)
        }
        let spec: &ConfigSpec = $spec;
        let doc: &[u8] = $doc;
        let w: usize = $w;
        catch_unwind(AssertUnwindSafe(|| -> String {
            match spec.decorator {
                Deco::Plain => match apply(config::plain(), spec) { Some(c) => format!("{:?}", c.string_from_read(doc, w)), None => "css-rejected".into() },
                Deco::PlainNoDecorate => match apply(config::plain_no_decorate(), spec) { Some(c) => format!("{:?}", c.string_from_read(doc, w)), None => "css-rejected".into() },
                Deco::Trivial => match apply(config::with_decorator($krate::render::TrivialDecorator::new()), spec) { Some(c) => format!("{:?}", c.string_from_read(doc, w)), None => "css-rejected".into() },
                _ => match apply(config::rich(), spec) { Some(c) => format!("{:?}", c.lines_from_read(doc, w)), None => "css-rejected".into() },
            }
        })).unwrap_or_else(|_| "PANIC".to_string())
    }};
}

fn main() {
    let args: Vec<String> = std::env::args().collect();
    let from: u64 = args[1].parse().unwrap();
    let to: u64 = args[2].parse().unwrap();
    std::panic::set_hook(Box::new(|_| {}));
    let mut diffs = 0u64;
    let mut compared = 0u64;
    let mut skipped = 0u64;
    for i in from..to {
        let mut rng = Rng::new(prng::mix(&[0xD1FF, i]));
        let target = match rng.weighted(&[20, 50, 30]) { 0 => rng.urange(1, 64), 1 => rng.urange(65, 1500), _ => rng.urange(1500, 3900) };
        let mut p = gen::DocParams::swarm(&mut rng, target);
        p.huge_nums = false;
        p.attrs = true;
        let doc = gen::gen_doc(&mut rng, p);
        if doc.len() >= 4096 { skipped += 1; continue; } // old tree chunks at 4096 (the U+FEFF fix)
        let text = String::from_utf8_lossy(&doc);
        // accounted-for differences: nested strikeout (e847a0f), zero wrap widths (loops in old)
        let nested_s = { let t = text.to_lowercase(); let n = t.matches("<s").count() + t.matches("<del").count(); n >= 2 };
        let cg = gen::ConfigGen { allow_custom: false, allow_css: true, allow_pad: true, extreme_values: false, sloppy_css: rng.chance(1, 3) };
        let mut spec = gen::gen_config(&mut rng, &cg);
        if rng.chance(1, 2) { spec.use_doc_css = true; }
        if nested_s { spec.unicode_strikeout = Some(false); }
        // CSS that the old tokenizer loops on
        if spec.css.iter().any(|c| c.text.contains('#')) || (spec.use_doc_css && text.contains('#')) {
            // keep only sheets where every '#' starts a name or colour
            let bad = |s: &str| s.as_bytes().windows(2).any(|w| w[0] == b'#' && !(w[1].is_ascii_alphanumeric() || w[1] == b'_' || w[1] == b'-')) || s.ends_with('#');
            if spec.css.iter().any(|c| bad(&c.text)) || (spec.use_doc_css && bad(&text)) { skipped += 1; continue; }
        }
        for _ in 0..2 {
            let w = gen::gen_width(&mut rng, false).max(1);
            let a = render_with!(old, &spec, &doc, w);
            let b = render_with!(new, &spec, &doc, w);
            compared += 1;
            if a == "PANIC" { continue; } // old panics are what the fixes removed
            if a != b {
                diffs += 1;
                if diffs <= 5 {
                    println!("DIFF at case {} width {} config {:?}\n doc: {:?}\n old: {}\n new: {}", i, w, spec, text, &a[..a.len().min(600)], &b[..b.len().min(600)]);
                }
            }
        }
    }
    println!("cases {}..{}: compared {} skipped {} differences {}", from, to, compared, skipped, diffs);
}
