#[path = "/verif/sim/src/prng.rs"]
#[allow(dead_code)]
mod prng;
#[path = "/verif/sim/src/scenario.rs"]
#[allow(dead_code)]
mod scenario;
#[path = "/verif/sim/src/gen.rs"]
#[allow(dead_code)]
mod gen;

#[path = "/verif/sim/src/seeds.rs"]
#[allow(dead_code)]
mod seeds;

use prng::Rng;
use scenario::{ConfigSpec, Deco};
use std::panic::{catch_unwind, AssertUnwindSafe};

macro_rules! render_with {
    ($krate:ident, $spec:expr, $doc:expr, $w:expr) => {{
        use $krate::config;
        fn apply<D: $krate::render::TextDecorator>(mut c: config::Config<D>, spec: &ConfigSpec) -> Option<config::Config<D>> {
            if spec.do_decorate { c = c.do_decorate(); }
            if let Some(b) = spec.link_footnotes { c = c.link_footnotes(b); }
            if spec.allow_width_overflow { c = c.allow_width_overflow(); }
            if let Some(k) = spec.min_wrap_width { c = c.min_wrap_width(k); }
            if let Some(k) = spec.max_wrap_width { c = c.max_wrap_width(k); }
            if spec.pad_block_width { c = c.pad_block_width(); }
            if let Some(b) = spec.raw_mode { c = c.raw_mode(b); }
            if spec.no_table_borders { c = c.no_table_borders(); }
            if spec.no_link_wrapping { c = c.no_link_wrapping(); }
            if let Some(b) = spec.unicode_strikeout { c = c.unicode_strikeout(b); }
            if spec.use_doc_css { c = c.use_doc_css(); }
            for css in &spec.css {
                c = if css.agent { c.add_agent_css(&css.text).ok()? } else { c.add_css(&css.text).ok()? };
            }
            Some(c)
        }
        let spec: &ConfigSpec = $spec;
        let doc: &[u8] = $doc;
        let w: usize = $w;
        catch_unwind(AssertUnwindSafe(|| -> String {
            match spec.decorator {
                Deco::Plain => match apply(config::plain(), spec) { Some(c) => format!("{:?}", c.string_from_read(doc, w)), None => "css-rejected".into() },
                Deco::PlainNoDecorate => match apply(config::plain_no_decorate(), spec) { Some(c) => format!("{:?}", c.string_from_read(doc, w)), None => "css-rejected".into() },
                Deco::Trivial => match apply(config::with_decorator($krate::render::TrivialDecorator::new()), spec) { Some(c) => format!("{:?}", c.string_from_read(doc, w)), None => "css-rejected".into() },
                _ => match apply(config::rich(), spec) { Some(c) => format!("{:?}", c.lines_from_read(doc, w)), None => "css-rejected".into() },
            }
        })).unwrap_or_else(|_| "PANIC".to_string())
    }};
}

fn main() {
    let args: Vec<String> = std::env::args().collect();
    let from: u64 = args[1].parse().unwrap();
    let to: u64 = args[2].parse().unwrap();
    std::panic::set_hook(Box::new(|_| {}));
    let mut diffs = 0u64;
    let mut compared = 0u64;
    let mut matched_some = 0u64;
    let mut skipped = 0u64;
    if args.len() > 3 {
        // small-alphabet mode: nested div/p/span with classes a/b, selectors over the same
        for i in from..to {
            let mut rng = Rng::new(prng::mix(&[0xD1FF3, i]));
            let mut doc = String::new();
            let mut stack = vec![];
            let deep = args[3] == "deep";
            let (lo, hi, close_den) = if deep { (18, 45, 12) } else { (2, 14, 4) };
            for _ in 0..rng.urange(lo, hi) {
                if !stack.is_empty() && rng.chance(1, close_den) { let t: &str = stack.pop().unwrap(); doc.push_str(&format!("</{}>", t)); }
                let t = if deep { rng.pick(&["div", "div", "div", "div", "span"]) } else { rng.pick(&["div", "div", "span", "b", "i"]) };
                match rng.below(4) { 0 => doc.push_str(&format!("<{}>", t)), 1 => doc.push_str(&format!("<{} class=a>", t)), 2 => doc.push_str(&format!("<{} class=b>", t)), _ => doc.push_str(&format!("<{} class='a b'>", t)) }
                stack.push(t);
                doc.push_str(rng.pick(&["x", "y ", "", "z"]));
            }
            let mut sheet = String::new();
            for _ in 0..rng.urange(1, 3) {
                let steps = if deep { rng.urange(3, 12) } else { rng.urange(1, 7) };
                for k in 0..steps {
                    if k > 0 { sheet.push_str(rng.pick(&[" ", " > "])); }
                    if deep {
                        sheet.push_str(rng.pick(&["div", "div", "div", "span", "*", "*", ".a", ".b", "div.a", ":nth-child(1)"]));
                        continue;
                    }
                    sheet.push_str(rng.pick(&["div", "span", "b", "i", ".a", ".b", "*", "div.a", "span.b", ".a.b", ":nth-child(1)", "div:nth-child(2n+1)"]));
                }
                sheet.push_str(" { display: none; }\n");
            }
            let mut spec = ConfigSpec::base(Deco::Plain);
            spec.css = vec![scenario::CssSpec { agent: false, text: sheet.clone() }];
            let a = render_with!(old, &spec, doc.as_bytes(), 40);
            let b = render_with!(new, &spec, doc.as_bytes(), 40);
            let mut nocss = spec.clone();
            nocss.css.clear();
            if render_with!(new, &nocss, doc.as_bytes(), 40) != b { matched_some += 1; }
            compared += 1;
            if a != b {
                diffs += 1;
                if diffs <= 5 { println!("DIFF css {:?} doc {:?}\n old {}\n new {}", sheet, doc, a, b); }
            }
        }
        println!("small cases {}..{}: compared {} css-had-effect {} differences {}", from, to, compared, matched_some, diffs);
        return;
    }
    for i in from..to {
        let mut rng = Rng::new(prng::mix(&[0xD1FF2, i]));
        let target = rng.urange(20, 1500);
        let mut p = gen::DocParams::swarm(&mut rng, target);
        p.huge_nums = false;
        p.attrs = true;
        let doc = gen::gen_doc(&mut rng, p);
        let text = String::from_utf8_lossy(&doc);
        {
            use unicode_width::{UnicodeWidthChar, UnicodeWidthStr};
            let mismatch = text.split(|c: char| c.is_control() || c.is_whitespace()).any(|run| {
                UnicodeWidthStr::width(run) != run.chars().map(|c| UnicodeWidthChar::width(c).unwrap_or(0)).sum::<usize>()
            });
            if mismatch { skipped += 1; continue; }
        }
        let cg = gen::ConfigGen { allow_custom: false, allow_css: false, allow_pad: true, extreme_values: false, sloppy_css: false };
        let mut spec = gen::gen_config(&mut rng, &cg);
        spec.decorator = if rng.chance(1, 2) { Deco::Rich } else { Deco::Plain };
        let mut sheet = String::new();
        for _ in 0..rng.urange(1, 6) {
            // selector-heavy rules: long chains of combinators
            let steps = rng.urange(1, 7);
            for k in 0..steps {
                if k > 0 { sheet.push_str(rng.pick(&[" ", " ", " > ", " > "])); }
                gen::gen_valid_compound(&mut rng, &mut sheet);
            }
            sheet.push_str(rng.pick(&[" { display: none; }\n", " { color: #123456; }\n", " { color: red !important; }\n", " { white-space: pre; }\n"]));
        }
        spec.css = vec![scenario::CssSpec { agent: rng.chance(1, 5), text: sheet.clone() }];
        let w = gen::gen_width(&mut rng, false).max(1);
        let a = render_with!(old, &spec, &doc, w);
        let b = render_with!(new, &spec, &doc, w);
        let mut nocss = spec.clone();
        nocss.css.clear();
        let c = render_with!(new, &nocss, &doc, w);
        if c != b { matched_some += 1; }
        compared += 1;
        if a != b {
            diffs += 1;
            if diffs <= 5 {
                println!("DIFF at case {} width {} css {:?}\n doc: {:?}\n old: {}\n new: {}", i, w, sheet, text, &a[..a.len().min(600)], &b[..b.len().min(600)]);
            }
        }
    }
    println!("cases {}..{}: compared {} skipped(width-mismatching sequences) {} css-had-effect {} differences {}", from, to, compared, skipped, matched_some, diffs);
}
