#!/bin/sh
# tools/selftest_determinism.sh [runs-per-property]
# Proves replay determinism on a large sample: every run index is executed
# in-process twice (same process) and in three separate sets of processes
# (1, 4 and 16 at a time); the per-run lines (event-log hash, interleaving
# hash, event count) of all sets must be byte-identical and no run may differ
# between its two in-process executions.
N=${1:-4000}
B=/verif/sim/target/release/h2tsim
D=$(mktemp -d /tmp/h2tsim-det.XXXXXX)
RC=0
for P in C01 C10; do
    for W in 1 4 16; do
        STEP=$(( (N + W - 1) / W ))
        i=0; pids=""
        while [ $i -lt $W ]; do
            FROM=$(( i * STEP )); TO=$(( FROM + STEP )); [ $TO -gt $N ] && TO=$N
            [ $FROM -lt $N ] && { $B selftest determinism $P 1 $FROM $TO quick > "$D/$P.w$W.part$i" & pids="$pids $!"; }
            i=$(( i + 1 ))
        done
        wait $pids
        cat $(ls "$D"/$P.w$W.part* | sort -t t -k 3 -n) | sort -n > "$D/$P.w$W"
    done
    if cmp -s "$D/$P.w1" "$D/$P.w4" && cmp -s "$D/$P.w1" "$D/$P.w16"; then
        echo "$P: $(wc -l < "$D/$P.w1") runs identical across 1/4/16 concurrent processes; in-process re-execution differences: $(grep -c DIFFERENT "$D/$P.w1")"
        [ "$(grep -c DIFFERENT "$D/$P.w1")" = "0" ] || RC=1
    else
        echo "$P: EVENT LOGS DIFFER between process sets"; RC=1
    fi
done
rm -rf "$D"
exit $RC
