#!/bin/sh
# tools/ingest_seeded.sh <worktree> <name>
# Copies a sub-agent's seeded change (patch, demonstration, notes) into
# /verif/seeded/<name>/ and confirms it in the worktree (suite passes with the
# change; demonstration fails with it and passes without it).
W=$1; N=$2
D=/verif/seeded/$N
mkdir -p "$D"
git -C "$W" diff -- src > "$D/patch.diff"
cp "$W/tests/demo_seeded.rs" "$D/demo_seeded.rs"
[ -f "$W/seeded_out/notes.md" ] && cp "$W/seeded_out/notes.md" "$D/notes.md"
echo "patch: $(grep -c '^[-+][^-+]' "$D/patch.diff") changed lines in $(grep -c '^diff' "$D/patch.diff") file(s)"
/verif/tools/confirm_seeded.sh "$W" "--features css" 2>&1 | tee "$D/confirm.txt"
