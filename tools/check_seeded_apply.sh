#!/bin/sh
# Every seeded change and every own mutant must apply to /repo's current tree.
RC=0
for p in /verif/seeded/*/patch.diff /verif/mutants/*.patch; do
    git -C /repo apply --check "$p" 2>/dev/null || { echo "DOES NOT APPLY: $p"; RC=1; }
done
[ $RC -eq 0 ] && echo "all seeded patches and mutants apply to /repo HEAD $(git -C /repo log --format=%h -1)"
exit $RC
