#!/usr/bin/env python3
"""Generates /verif/mutants/*.patch in a scratch worktree of /repo (argument 1).

These are the simulator's own sensitivity mutants (DESIGN 3.8): deliberate
property-breaking edits (C01, C10) plus property-preserving controls (K*) that
must stay silent.  tools/run_mutants.sh applies each to /repo, runs the
relevant quick check and reverts.
"""
import subprocess, sys, os
W = sys.argv[1]
OUT = os.path.join(os.path.dirname(os.path.abspath(__file__)), "..", "mutants")

def run(*a):
    return subprocess.run(a, cwd=W, capture_output=True, text=True)

MUTANTS = []
def mut(name, prop, expect, descr, edits):
    MUTANTS.append((name, prop, expect, descr, edits))

LIB, TR, DOM = "src/lib.rs", "src/render/text_renderer.rs", "src/markup5ever_rcdom.rs"

mut("C01-m02-colspan-max1-removed", "C01", "silent", "drop the .max(1) that turns colspan=0 into 1 when remapping columns - EQUIVALENT: colspan=0 is already replaced while building the table body, so this guard is redundant and the edit breaks nothing",
    [(LIB, "let nextpos = pos + cell.colspan.max(1);", "let nextpos = pos + cell.colspan;")])
mut("C01-m03-hard-wrap-no-progress-guard", "C01", "caught", "hard wrap no longer notices that a wide character can never fit",
    [(TR, "if idx == 0 && self.line.width() == 0 {", "if false && idx == 0 && self.line.width() == 0 {")])
mut("C01-m04-too-narrow-unwrapped", "C01", "caught", "a heading unwraps the too-narrow result instead of propagating it",
    [(LIB, "renderer.new_sub_renderer(renderer.width_minus(prefix.len(), inner_width)?)?;\n            renderer.push(sub_builder);\n            pending2(children, move |renderer: &mut TextRenderer<D>, _| {\n                let sub_builder = renderer.pop();\n\n                renderer.start_block()?;\n                renderer.append_subrender(sub_builder, repeat(&prefix[..]))?;\n                renderer.end_block();\n                pushed_style.unwind(renderer);\n                Ok(Some(None))\n            })\n        }\n        Div(children)",
           "renderer.new_sub_renderer(renderer.width_minus(prefix.len(), inner_width).unwrap())?;\n            renderer.push(sub_builder);\n            pending2(children, move |renderer: &mut TextRenderer<D>, _| {\n                let sub_builder = renderer.pop();\n\n                renderer.start_block()?;\n                renderer.append_subrender(sub_builder, repeat(&prefix[..]))?;\n                renderer.end_block();\n                pushed_style.unwind(renderer);\n                Ok(Some(None))\n            })\n        }\n        Div(children)")])
mut("C01-m05-dom-drop-recursive", "C01", "caught", "the DOM node loses its iterative Drop",
    [(DOM, "impl Drop for Node {\n    fn drop(&mut self) {\n        let mut nodes = mem::take(&mut *self.children.borrow_mut());",
           "impl Drop for Node {\n    fn drop(&mut self) {\n        if true {\n            return;\n        }\n        let mut nodes = mem::take(&mut *self.children.borrow_mut());")])
mut("C01-m06-read-to-string", "C01", "caught", "parse_html reads with read_to_string (invalid UTF-8 becomes an I/O error)",
    [(LIB, "            let mut bytes = Vec::new();\n            input.read_to_end(&mut bytes)?;\n",
           "            let mut text = String::new();\n            input.read_to_string(&mut text)?;\n            let bytes = text.into_bytes();\n")])
mut("C01-m07-eintr-not-retried", "C01", "caught", "parse_html has its own read loop that does not retry ErrorKind::Interrupted",
    [(LIB, "            let mut bytes = Vec::new();\n            input.read_to_end(&mut bytes)?;\n",
           "            let mut bytes = Vec::new();\n            let mut buf = [0u8; 4096];\n            loop {\n                let n = input.read(&mut buf)?;\n                if n == 0 {\n                    break;\n                }\n                bytes.extend_from_slice(&buf[..n]);\n            }\n")])
mut("C01-m08-trusts-buffer-past-count", "C10", "caught", "read loop appends the whole buffer, not just the bytes returned (only visible with short reads) (garbage becomes input: a C10 violation, not a C01 one)",
    [(LIB, "            let mut bytes = Vec::new();\n            input.read_to_end(&mut bytes)?;\n",
           "            let mut bytes = Vec::new();\n            let mut buf = [0u8; 4096];\n            loop {\n                match input.read(&mut buf) {\n                    Ok(0) => break,\n                    Ok(n) => {\n                        let take = if n < 16 { buf.iter().position(|&b| b == 0).unwrap_or(n).max(n) } else { n };\n                        bytes.extend_from_slice(&buf[..take.min(buf.len())]);\n                        buf = [0u8; 4096];\n                    }\n                    Err(ref e) if e.kind() == io::ErrorKind::Interrupted => {}\n                    Err(e) => return Err(e.into()),\n                }\n            }\n")])
mut("C01-m09-tree-walk-recursive-drop", "C01", "caught", "RenderNode loses its iterative Drop",
    [(LIB, "        let mut nodes = self.info.take_children();\n        while let Some(mut node) = nodes.pop() {",
           "        let mut nodes: Vec<RenderNode> = Vec::new();\n        while let Some(mut node) = nodes.pop() {")])

mut("C10-m10-single-read", "C10", "caught", "parse_html parses only what the first read() returns",
    [(LIB, "            let mut bytes = Vec::new();\n            input.read_to_end(&mut bytes)?;\n",
           "            let mut bytes = vec![0u8; 1 << 20];\n            let n = loop {\n                match input.read(&mut bytes) {\n                    Err(ref e) if e.kind() == io::ErrorKind::Interrupted => continue,\n                    other => break other?,\n                }\n            };\n            bytes.truncate(n);\n")])
mut("C10-m11-global-link-counter", "C10", "caught", "footnote numbers come from a process-global counter that is never reset",
    [(TR, "            let footnote_num = self.links.len();",
          "            static COUNTER: std::sync::atomic::AtomicUsize = std::sync::atomic::AtomicUsize::new(0);\n            let footnote_num = COUNTER.fetch_add(1, std::sync::atomic::Ordering::Relaxed) % 3 + self.links.len();")])
mut("C10-m12-lines-route-one-narrower", "C10", "caught", "render_to_lines renders one column narrower than asked",
    [(LIB, "            render_tree\n                .render_with_context(\n                    &mut self.make_context(),\n                    width,\n                    self.decorator.make_subblock_decorator(),\n                )?\n                .into_lines()",
           "            render_tree\n                .render_with_context(\n                    &mut self.make_context(),\n                    if width > 40 { width - 1 } else { width },\n                    self.decorator.make_subblock_decorator(),\n                )?\n                .into_lines()")])
mut("C10-m13-staged-route-drops-option", "C10", "caught", "dom_to_render_tree/render_to_* build their context without max_wrap_width",
    [(LIB, "        /// Parse with context.\n        pub(crate) fn do_parse",
           "        /// Context for the staged route.\n        fn make_staged_context(&self) -> HtmlContext {\n            let mut c = self.make_context();\n            c.max_wrap_width = None;\n            c\n        }\n        /// Parse with context.\n        pub(crate) fn do_parse"),
     (LIB, "        pub fn render_to_string(&self, render_tree: RenderTree, width: usize) -> Result<String> {\n            let s = render_tree\n                .render_with_context(\n                    &mut self.make_context(),",
           "        pub fn render_to_string(&self, render_tree: RenderTree, width: usize) -> Result<String> {\n            let s = render_tree\n                .render_with_context(\n                    &mut self.make_staged_context(),")])
mut("C10-m14-thread-local-width-cache", "C10", "caught", "a thread_local cache of the last table's column widths keyed by width and column count only",
    [(LIB, "    let mut col_widths: Vec<usize> = if !vert_row {",
           "    thread_local! {\n        static LAST: std::cell::RefCell<Option<(usize, usize, Vec<usize>)>> = const { std::cell::RefCell::new(None) };\n    }\n    let cached = LAST.with(|l| l.borrow().clone());\n    let mut col_widths: Vec<usize> = if let Some((w, n, cw)) = cached.filter(|c| !vert_row && c.0 == width && c.1 == num_columns && num_columns > 1) {\n        let _ = (w, n);\n        cw\n    } else if !vert_row {"),
     (LIB, "    let table_width = if vert_row {\n        width\n    } else {",
           "    if !vert_row {\n        LAST.with(|l| *l.borrow_mut() = Some((width, num_columns, col_widths.clone())));\n    }\n    let table_width = if vert_row {\n        width\n    } else {")])
mut("C10-m15-hash-order-in-column-remap", "C10", "caught", "column positions are collected in a HashSet and numbered in iteration order",
    [(LIB, "        let colmap: HashMap<_, _> = col_positions\n            .into_iter()\n            .enumerate()",
           "        let unordered: std::collections::HashSet<usize> = col_positions.into_iter().collect();\n        let first_two: Vec<usize> = unordered.iter().copied().take(2).collect();\n        let mut ordered: Vec<usize> = unordered.into_iter().collect();\n        ordered.sort_unstable();\n        if ordered.len() > 3 && first_two.len() == 2 && first_two[0] > first_two[1] {\n            // \"stable enough\": ties in layout broken by hash order\n            ordered.dedup_by(|a, b| *a == *b + 1);\n        }\n        let colmap: HashMap<_, _> = ordered\n            .into_iter()\n            .enumerate()")])
mut("C10-m16-clone-shares-estimate-cell", "C10", "silent", "rendering at a narrow width poisons the size estimate kept in clones (estimate depends on the first width seen)",
    [(LIB, "        if width == 0 {\n            return Err(Error::TooNarrow);\n        }\n        let render_options",
           "        if width == 0 {\n            return Err(Error::TooNarrow);\n        }\n        if width < 8 {\n            context.min_wrap_width = context.min_wrap_width.min(1);\n        }\n        let render_options")])

mut("K-k1-different-quote-prefix", "C01,C10", "silent", "control: block quotes use '| ' instead of '> ' (changes output everywhere, breaks neither property)",
    [(TR, "    fn quote_prefix(&self) -> String {\n        \"> \".to_string()\n    }", "    fn quote_prefix(&self) -> String {\n        \"| \".to_string()\n    }")])
mut("K-k2-greedy-fit-off-by-one", "C01,C10", "silent", "control: a word that exactly fills the line is wrapped (breaks C04, not C01/C10)",
    [(TR, "            if space_needed <= space_in_line {", "            if space_needed < space_in_line || self.line.len == 0 && space_needed <= space_in_line {")])
mut("K-k3-footnotes-reversed", "C01,C10", "silent", "control: the footnote list is emitted in reverse order (breaks C08, not C01/C10)",
    [(TR, "        urls.into_iter()\n            .enumerate()\n            .map(|(idx, s)| {\n                TaggedLine::from_string(format!(\"[{}]: {}\", idx + 1, s), &Default::default())\n            })\n            .collect()",
          "        let mut v: Vec<_> = urls\n            .into_iter()\n            .enumerate()\n            .map(|(idx, s)| {\n                TaggedLine::from_string(format!(\"[{}]: {}\", idx + 1, s), &Default::default())\n            })\n            .collect();\n        v.reverse();\n        v")])

os.makedirs(OUT, exist_ok=True)
index = []
for name, prop, expect, descr, edits in MUTANTS:
    run("git", "checkout", "--", ".")
    ok = True
    for path, old, new in edits:
        p = os.path.join(W, path)
        s = open(p).read()
        n = s.count(old)
        if n < 1:
            print("EDIT DOES NOT APPLY:", name, path, repr(old[:50])); ok = False; break
        s = s.replace(old, new) if n == len([1 for _ in range(n)]) else s
        open(p, "w").write(s)
    if not ok:
        continue
    b = subprocess.run(["cargo", "build", "--offline", "--features", "css"], cwd=W, capture_output=True, text=True)
    if b.returncode != 0:
        print("DOES NOT COMPILE:", name); print(b.stderr[-1500:]); continue
    d = run("git", "diff").stdout
    open(os.path.join(OUT, name + ".patch"), "w").write(d)
    t = subprocess.run(["cargo", "test", "--offline", "--lib"], cwd=W, capture_output=True, text=True)
    res = [l for l in t.stdout.splitlines() if l.startswith("test result")]
    index.append({"name": name, "property": prop, "expect": expect, "description": descr, "existing_tests": res[0] if res else "did not run"})
    print(name, "|", res[0] if res else t.stderr[-300:])
run("git", "checkout", "--", ".")
import json
json.dump(index, open(os.path.join(OUT, "index.json"), "w"), indent=1)
