#!/bin/sh
# tools/rebase_seeded.sh
# After a commit to /repo: every seeded patch / mutant that no longer applies
# is re-applied with `git apply --3way` in a scratch worktree; conflicts that
# consist only of `use` lines are resolved by keeping both sides (the larger
# brace list wins where one side is a subset), the result is compiled, and
# the patch file is rewritten.  Anything else is reported for manual work.
W=/tmp/wt-rebase
git -C /repo worktree remove --force $W 2>/dev/null
git -C /repo worktree add --detach $W HEAD -q || exit 2
for p in /verif/seeded/*/patch.diff /verif/mutants/*.patch; do
    git -C $W apply --check "$p" 2>/dev/null && continue
    git -C $W reset -q --hard
    git -C $W apply --3way "$p" >/dev/null 2>&1
    ( cd $W && python3 - <<'PY'
import re,subprocess,sys
files=subprocess.check_output(['git','diff','--name-only','--diff-filter=U']).decode().split()
ok=True
for f in files:
    s=open(f).read()
    def res(m):
        global ok
        ours,theirs=m.group(1),m.group(2)
        lines=(ours+theirs).splitlines()
        if not all(l.startswith('use ') or l.strip()=='' for l in lines):
            ok=False; return m.group(0)
        # drop a line whose imports are a subset of another line from the same module
        def parts(l):
            m2=re.match(r'use ([\w:]+)::\{(.*)\};',l)
            if m2: return m2.group(1),set(x.strip() for x in m2.group(2).split(','))
            m3=re.match(r'use ([\w:]+)::(\w+);',l)
            if m3: return m3.group(1),{m3.group(2)}
            return l,set()
        keep=[]
        for l in lines:
            if not l.strip(): continue
            mod,names=parts(l)
            if any(o!=l and parts(o)[0]==mod and names<=parts(o)[1] and (names<parts(o)[1] or o in keep) for o in lines): 
                if l in keep: continue
                if any(parts(o)[0]==mod and names<parts(o)[1] for o in lines): continue
            if l not in keep: keep.append(l)
        return '\n'.join(keep)+'\n'
    s=re.sub(r'<<<<<<< ours\n(.*?)=======\n(.*?)>>>>>>> theirs\n',res,s,flags=re.S)
    open(f,'w').write(s)
sys.exit(0 if ok else 1)
PY
    ) || { echo "MANUAL: $p (conflict outside use lines)"; continue; }
    git -C $W reset -q
    if ( cd $W && CARGO_TARGET_DIR=$W/target cargo build --offline --features css 2>&1 | grep -q "^error" ); then
        echo "MANUAL: $p (does not compile after rebase)"; continue
    fi
    git -C $W diff -- src > "$p.new" && mv "$p.new" "$p" && echo "rebased: $p"
done
git -C /repo worktree remove --force $W
/verif/tools/check_seeded_apply.sh | tail -2
