#!/bin/sh
# tools/confirm_seeded.sh <worktree> [cargo features]
# Confirms in the scratch worktree that a seeded change (a) passes the
# existing suite and (b) its demonstration fails with the change and passes
# without it.
W=$1; F=$2
cd "$W" || exit 2
mv tests/demo_seeded.rs /tmp/demo_seeded_$$.rs
echo "== existing suite with the change"; cargo test --offline $F 2>&1 | grep -E "^test result" | head -2
mv /tmp/demo_seeded_$$.rs tests/demo_seeded.rs
echo "== demo with the change"; timeout 900 cargo test --offline $F --test demo_seeded 2>&1 | grep -E "^test result|overflowed|SIGABRT|signal|timed out" | head -3
git diff -- src > /tmp/seeded_$$.patch
git apply -R /tmp/seeded_$$.patch
echo "== demo without the change"; timeout 900 cargo test --offline $F --test demo_seeded 2>&1 | grep -E "^test result|overflowed|SIGABRT|signal" | head -3
git apply /tmp/seeded_$$.patch; rm -f /tmp/seeded_$$.patch
git status --short | head
