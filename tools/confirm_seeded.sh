#!/bin/sh
# tools/confirm_seeded.sh <worktree> [cargo features]
# Confirms in the scratch worktree that a seeded change (a) passes the
# existing suite and (b) its demonstration fails with the change and passes
# without it.
W=$1; F=$2
cd "$W" || exit 2
mv tests/demo_seeded.rs /tmp/demo_seeded_$$.rs
echo "== existing suite with the change"; cargo test --offline $F 2>&1 | grep -E "^test result" | head -2
mv /tmp/demo_seeded_$$.rs tests/demo_seeded.rs
echo "== demo with the change"; timeout 600 cargo test --offline $F --test demo_seeded 2>&1 | grep -E "^test result|overflowed|SIGABRT|signal|timed out" | head -3
git stash push -q -- src
echo "== demo without the change"; timeout 600 cargo test --offline $F --test demo_seeded 2>&1 | grep -E "^test result|overflowed|SIGABRT|signal" | head -3
git stash pop -q
git status --short | head
