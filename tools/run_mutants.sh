#!/bin/sh
# tools/run_mutants.sh [name-filter]
# Sensitivity suite: applies each patch of /verif/mutants to /repo, runs the
# quick check(s) of the property it targets (controls: both checks) with
# evidence redirected to a scratch directory, reverts /repo, and prints one
# line per mutant: expected vs observed.
FILTER=${1:-.}
OUT=/tmp/h2tsim-mutants-out
git -C /repo diff --quiet || { echo "/repo has uncommitted changes; refusing"; exit 2; }
python3 - "$FILTER" <<'PY' > /tmp/h2tsim-mutants.list
import json,sys,re
for m in json.load(open('/verif/mutants/index.json')):
    if re.search(sys.argv[1], m['name']):
        print(m['name'], m['property'], m['expect'])
PY
while read NAME PROPS EXPECT; do
    git -C /repo apply "/verif/mutants/$NAME.patch" || { echo "$NAME: PATCH DOES NOT APPLY"; continue; }
    OBS=""
    for PROP in $(echo $PROPS | tr ',' ' '); do
        rm -rf "$OUT"; mkdir -p "$OUT/evidence" "$OUT/replays"
        ln -s /verif/corpus "$OUT/corpus"; ln -s /verif/known_findings.json "$OUT/known_findings.json"
        S=$(date +%s)
        H2TSIM_VERIF_DIR="$OUT" /verif/bin/check $PROP quick > "$OUT/log" 2>&1
        RC=$?
        SIG=$(grep -m1 "signature=" "$OUT/log" | sed 's/.*signature=//' | cut -c1-70)
        OBS="$OBS $PROP:rc=$RC($(( $(date +%s) - S ))s)${SIG:+[$SIG]}"
    done
    git -C /repo checkout -- .
    echo "$NAME expect=$EXPECT observed:$OBS"
done < /tmp/h2tsim-mutants.list
( cd /verif/sim && cargo build --release --offline >/dev/null 2>&1 )
