//! Baton scheduler over real OS threads.  Exactly one simulated caller
//! thread runs at a time; it gives up the baton only at scheduling points
//! (every simulated read, every pre-drawn tick preemption point, every op
//! boundary), where the scheduler stream — drawn only by the baton holder,
//! hence totally ordered — picks who runs next.  The realised choices are
//! recorded so that a run can be replayed from the explicit list.

use crate::prng::{fnv_add, Rng};
use crate::reader::FaultStats;
use crate::scenario::SchedSpec;
use std::cell::RefCell;
use std::sync::atomic::{AtomicBool, AtomicU64, Ordering};

/// Signs of life of the simulated system, for the stall watchdog: bumped at
/// every scheduler event and every time the step-clock callback runs.  Never
/// read by anything that influences a run.
pub static PROGRESS: AtomicU64 = AtomicU64::new(0);
use std::sync::{Arc, Condvar, Mutex, MutexGuard};
use std::time::Duration;

#[derive(Clone, Copy, Debug, PartialEq, Eq)]
#[repr(u8)]
pub enum EventKind {
    Read = 1,
    ReadResult = 2,
    Tick = 3,
    OpStart = 4,
    OpDone = 5,
    Finish = 6,
    Handoff = 7,
    /// the baton holder was found blocked outside the simulator's control
    /// (on a lock held by a parked thread) and the baton was passed on
    Takeover = 8,
    /// a thread that had been blocked caught up and parked again
    Unblocked = 9,
}

enum Chooser {
    Random(Rng),
    Sticky(Rng, u32),
    RoundRobin,
    Pct {
        prio: Vec<u32>,
        change_at: Vec<u64>,
        next_low: u32,
    },
    Explicit(Vec<u32>, usize),
}

struct Inner {
    current: usize,
    started: bool,
    live: Vec<bool>,
    event_no: u64,
    log_hash: u64,
    /// hash of the (event kind, thread) sequence only: the interleaving
    interleave_hash: u64,
    /// hash of the sequence of read results only: the delivery shape
    delivery_hash: u64,
    trace: Option<Vec<String>>,
    chooser: Chooser,
    choices: Vec<u32>,
    switches: u64,
    sched_points: u64,
    /// threads found blocked on something the simulator does not control
    blocked: Vec<bool>,
    os_tids: Vec<i32>,
    stall_event: u64,
    stall_cpu: u64,
    stall_checks: u32,
    takeovers: u64,
}

pub struct Shared {
    inner: Mutex<Inner>,
    cv: Condvar,
    nthreads: usize,
    /// set for a thread when the baton was taken from it while it was blocked
    taken_over: Vec<AtomicBool>,
}

const NOBODY: usize = usize::MAX;

/// (state letter, utime + stime in clock ticks) of one of our OS threads.
fn os_thread_state(tid: i32) -> Option<(char, u64)> {
    let s = std::fs::read_to_string(format!("/proc/self/task/{}/stat", tid)).ok()?;
    let rest = &s[s.rfind(')')? + 2..];
    let f: Vec<&str> = rest.split(' ').collect();
    let state = f.first()?.chars().next()?;
    let utime: u64 = f.get(11)?.parse().ok()?;
    let stime: u64 = f.get(12)?.parse().ok()?;
    Some((state, utime + stime))
}

pub struct RunLog {
    pub events: u64,
    pub log_hash: u64,
    pub interleave_hash: u64,
    pub delivery_hash: u64,
    pub choices: Vec<u32>,
    pub switches: u64,
    pub sched_points: u64,
    pub takeovers: u64,
    pub trace: Option<Vec<String>>,
}

impl Shared {
    pub fn new(nthreads: usize, spec: &SchedSpec, trace: bool) -> Arc<Shared> {
        let chooser = match spec {
            SchedSpec::Random { seed } => Chooser::Random(Rng::new(*seed)),
            SchedSpec::Sticky { seed, den } => Chooser::Sticky(Rng::new(*seed), (*den).max(1)),
            SchedSpec::RoundRobin => Chooser::RoundRobin,
            SchedSpec::Pct {
                seed,
                changes,
                horizon,
            } => {
                let mut rng = Rng::new(*seed);
                // random permutation of priorities nthreads+changes .. changes+1
                let mut prio: Vec<u32> = (0..nthreads as u32).map(|i| i + changes + 1).collect();
                for i in (1..prio.len()).rev() {
                    let j = rng.usize_below(i + 1);
                    prio.swap(i, j);
                }
                let mut change_at: Vec<u64> = (0..*changes)
                    .map(|_| rng.below((*horizon).max(1) as u64))
                    .collect();
                change_at.sort_unstable();
                Chooser::Pct {
                    prio,
                    change_at,
                    next_low: *changes,
                }
            }
            SchedSpec::Explicit { choices } => Chooser::Explicit(choices.clone(), 0),
        };
        Arc::new(Shared {
            inner: Mutex::new(Inner {
                current: 0,
                started: false,
                live: vec![true; nthreads],
                event_no: 0,
                log_hash: 0xcbf2_9ce4_8422_2325,
                interleave_hash: 0xcbf2_9ce4_8422_2325,
                delivery_hash: 0xcbf2_9ce4_8422_2325,
                trace: if trace { Some(Vec::new()) } else { None },
                chooser,
                choices: Vec::new(),
                switches: 0,
                sched_points: 0,
                blocked: vec![false; nthreads],
                os_tids: vec![0; nthreads],
                stall_event: 0,
                stall_cpu: 0,
                stall_checks: 0,
                takeovers: 0,
            }),
            cv: Condvar::new(),
            nthreads,
            taken_over: (0..nthreads).map(|_| AtomicBool::new(false)).collect(),
        })
    }

    /// Called by the main thread once all simulated threads are spawned.
    pub fn release(&self) {
        let mut g = self.inner.lock().unwrap();
        let first = g.choose(usize::MAX, self.nthreads);
        g.current = first;
        g.started = true;
        self.cv.notify_all();
    }

    pub fn finish_log(&self) -> RunLog {
        let mut g = self.inner.lock().unwrap();
        RunLog {
            events: g.event_no,
            log_hash: g.log_hash,
            interleave_hash: g.interleave_hash,
            delivery_hash: g.delivery_hash,
            choices: std::mem::take(&mut g.choices),
            switches: g.switches,
            sched_points: g.sched_points,
            takeovers: g.takeovers,
            trace: g.trace.take(),
        }
    }
}

impl Inner {
    fn record(&mut self, tid: usize, kind: EventKind, value: u64) {
        PROGRESS.fetch_add(1, Ordering::Relaxed);
        self.event_no += 1;
        let mut h = fnv_add(self.log_hash, tid as u64);
        h = fnv_add(h, kind as u64);
        h = fnv_add(h, value);
        self.log_hash = h;
        if matches!(
            kind,
            EventKind::Read | EventKind::Tick | EventKind::OpStart | EventKind::Finish
        ) {
            self.interleave_hash = fnv_add(self.interleave_hash, ((kind as u64) << 8) | tid as u64);
        }
        if kind == EventKind::ReadResult {
            self.delivery_hash = fnv_add(self.delivery_hash, value);
        }
        if let Some(t) = self.trace.as_mut() {
            t.push(format!("{} t{} {:?} {}", self.event_no, tid, kind, value));
        }
    }

    /// Pick the next thread to run.  `me` is the caller (usize::MAX for the
    /// initial choice); if `me` is not live it cannot be chosen.
    fn choose(&mut self, me: usize, n: usize) -> usize {
        // candidates: not finished and not blocked outside our control
        let live: Vec<usize> = (0..n).filter(|&i| self.live[i] && !self.blocked[i]).collect();
        debug_assert!(!live.is_empty());
        let me_live = me < n && self.live[me] && !self.blocked[me];
        let evno = self.sched_points;
        self.sched_points += 1;
        let pick = match &mut self.chooser {
            Chooser::Random(rng) => live[rng.usize_below(live.len())],
            Chooser::Sticky(rng, den) => {
                if me_live && (live.len() == 1 || !rng.chance(1, *den as u64)) {
                    me
                } else {
                    let others: Vec<usize> = live.iter().copied().filter(|&i| i != me).collect();
                    if others.is_empty() {
                        me
                    } else {
                        others[rng.usize_below(others.len())]
                    }
                }
            }
            Chooser::RoundRobin => {
                let start = if me < n { me + 1 } else { 0 };
                (0..n)
                    .map(|k| (start + k) % n)
                    .find(|&i| self.live[i] && !self.blocked[i])
                    .unwrap()
            }
            Chooser::Pct {
                prio,
                change_at,
                next_low,
            } => {
                while let Some(&c) = change_at.first() {
                    if c <= evno {
                        change_at.remove(0);
                        // demote the currently highest-priority live thread
                        if let Some(&top) = live.iter().max_by_key(|&&i| prio[i]) {
                            prio[top] = *next_low;
                            *next_low = next_low.saturating_sub(1);
                        }
                    } else {
                        break;
                    }
                }
                *live.iter().max_by_key(|&&i| prio[i]).unwrap()
            }
            Chooser::Explicit(list, idx) => {
                let c = list.get(*idx).copied();
                *idx += 1;
                match c {
                    Some(c) if (c as usize) < n && self.live[c as usize] && !self.blocked[c as usize] => c as usize,
                    _ => {
                        if me_live {
                            me
                        } else {
                            live[0]
                        }
                    }
                }
            }
        };
        self.choices.push(pick as u32);
        pick
    }
}

/// Per-thread handle.
pub struct Ctx {
    pub tid: usize,
    shared: Arc<Shared>,
    stats: RefCell<FaultStats>,
}

impl Ctx {
    pub fn new(tid: usize, shared: Arc<Shared>) -> Ctx {
        Ctx {
            tid,
            shared,
            stats: RefCell::new(FaultStats::default()),
        }
    }

    pub fn with_stats<F: FnOnce(&mut FaultStats)>(&self, f: F) {
        f(&mut self.stats.borrow_mut());
    }

    pub fn stats(&self) -> FaultStats {
        *self.stats.borrow()
    }

    /// Wait (parked) until this thread holds the baton.  While waiting, watch
    /// the current holder: if it makes no progress and burns no CPU for a
    /// while it is blocked on something the simulator does not control - in
    /// practice a lock taken by the code under test and held by a thread we
    /// parked inside its critical section.  A real scheduler would simply run
    /// someone else; so do we (takeover), instead of deadlocking ourselves.
    fn wait_for_baton<'a>(&'a self, mut g: MutexGuard<'a, Inner>) -> MutexGuard<'a, Inner> {
        loop {
            if g.started && g.current == self.tid {
                return g;
            }
            if g.started && g.current == NOBODY && !g.blocked[self.tid] {
                g.current = self.tid;
                return g;
            }
            let (g2, to) = self.shared.cv.wait_timeout(g, Duration::from_millis(100)).unwrap();
            g = g2;
            if to.timed_out() && g.started && g.current != self.tid {
                self.maybe_takeover(&mut g);
            }
        }
    }

    fn maybe_takeover(&self, g: &mut Inner) {
        let cur = g.current;
        if cur == NOBODY || cur >= g.os_tids.len() {
            return;
        }
        let (state, cpu) = match os_thread_state(g.os_tids[cur]) {
            Some(x) => x,
            None => return,
        };
        if g.event_no != g.stall_event || cpu != g.stall_cpu || state != 'S' {
            g.stall_event = g.event_no;
            g.stall_cpu = cpu;
            g.stall_checks = 0;
            return;
        }
        g.stall_checks += 1;
        if g.stall_checks < 3 {
            return;
        }
        // The holder has been asleep without progress for >= 300 ms.
        g.stall_checks = 0;
        g.blocked[cur] = true;
        self.shared.taken_over[cur].store(true, Ordering::SeqCst);
        g.takeovers += 1;
        g.record(cur, EventKind::Takeover, 0);
        let n = self.shared.nthreads;
        if (0..n).any(|i| g.live[i] && !g.blocked[i]) {
            let next = g.choose(NOBODY, n);
            g.current = next;
        } else {
            // every simulated thread is blocked: a genuine deadlock
            eprintln!("h2tsim: SIM-DEADLOCK: every simulated caller thread is blocked");
            std::process::exit(3);
        }
        self.shared.cv.notify_all();
    }

    /// Called at every tick in multi-threaded runs and at every scheduling
    /// point: a thread whose baton was taken while it was blocked runs on
    /// concurrently only until here, then parks like everybody else.
    pub fn check_baton(&self) {
        if !self.shared.taken_over[self.tid].load(Ordering::Relaxed) {
            return;
        }
        let mut g = self.shared.inner.lock().unwrap();
        self.shared.taken_over[self.tid].store(false, Ordering::SeqCst);
        g.blocked[self.tid] = false;
        g.record(self.tid, EventKind::Unblocked, 0);
        let _g = self.wait_for_baton(g);
    }

    /// Block until this thread is given the baton for the first time.
    pub fn start(&self) {
        let mut g = self.shared.inner.lock().unwrap();
        g.os_tids[self.tid] = unsafe { libc::gettid() } as i32;
        let _g = self.wait_for_baton(g);
    }

    /// Record an event without offering to yield.
    pub fn log(&self, kind: EventKind, value: u64) {
        self.check_baton();
        let mut g = self.shared.inner.lock().unwrap();
        g.record(self.tid, kind, value);
    }

    /// A scheduling point: record it, let the scheduler pick who runs next,
    /// and if that is someone else hand over the baton and wait for it.
    pub fn yield_point(&self, kind: EventKind) {
        self.check_baton();
        let n = self.shared.nthreads;
        let mut g = self.shared.inner.lock().unwrap();
        g.record(self.tid, kind, 0);
        if n <= 1 {
            return;
        }
        if (0..n).filter(|&i| g.live[i] && !g.blocked[i]).count() <= 1 {
            return;
        }
        let next = g.choose(self.tid, n);
        if next != self.tid {
            g.switches += 1;
            g.current = next;
            self.stats.borrow_mut().switches += 1;
            self.shared.cv.notify_all();
            let _g = self.wait_for_baton(g);
        }
    }

    /// This thread is done: give the baton away for good.
    pub fn finish(&self) {
        self.check_baton();
        let n = self.shared.nthreads;
        let mut g = self.shared.inner.lock().unwrap();
        g.record(self.tid, EventKind::Finish, 0);
        g.live[self.tid] = false;
        if (0..n).any(|i| g.live[i] && !g.blocked[i]) {
            let next = g.choose(self.tid, n);
            g.current = next;
            self.shared.cv.notify_all();
        } else if g.live.iter().any(|&l| l) {
            // only blocked threads are left: whoever wakes up first takes over
            g.current = NOBODY;
            self.shared.cv.notify_all();
        }
    }
}
