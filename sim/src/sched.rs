//! Baton scheduler over real OS threads.  Exactly one simulated caller
//! thread runs at a time; it gives up the baton only at scheduling points
//! (every simulated read, every pre-drawn tick preemption point, every op
//! boundary), where the scheduler stream — drawn only by the baton holder,
//! hence totally ordered — picks who runs next.  The realised choices are
//! recorded so that a run can be replayed from the explicit list.

use crate::prng::{fnv_add, Rng};
use crate::reader::FaultStats;
use crate::scenario::SchedSpec;
use std::cell::RefCell;
use std::sync::{Arc, Condvar, Mutex};

#[derive(Clone, Copy, Debug, PartialEq, Eq)]
#[repr(u8)]
pub enum EventKind {
    Read = 1,
    ReadResult = 2,
    Tick = 3,
    OpStart = 4,
    OpDone = 5,
    Finish = 6,
    Handoff = 7,
}

enum Chooser {
    Random(Rng),
    Sticky(Rng, u32),
    RoundRobin,
    Pct {
        prio: Vec<u32>,
        change_at: Vec<u64>,
        next_low: u32,
    },
    Explicit(Vec<u32>, usize),
}

struct Inner {
    current: usize,
    started: bool,
    live: Vec<bool>,
    event_no: u64,
    log_hash: u64,
    /// hash of the (event kind, thread) sequence only: the interleaving
    interleave_hash: u64,
    /// hash of the sequence of read results only: the delivery shape
    delivery_hash: u64,
    trace: Option<Vec<String>>,
    chooser: Chooser,
    choices: Vec<u32>,
    switches: u64,
    sched_points: u64,
}

pub struct Shared {
    inner: Mutex<Inner>,
    cv: Condvar,
    nthreads: usize,
}

pub struct RunLog {
    pub events: u64,
    pub log_hash: u64,
    pub interleave_hash: u64,
    pub delivery_hash: u64,
    pub choices: Vec<u32>,
    pub switches: u64,
    pub sched_points: u64,
    pub trace: Option<Vec<String>>,
}

impl Shared {
    pub fn new(nthreads: usize, spec: &SchedSpec, trace: bool) -> Arc<Shared> {
        let chooser = match spec {
            SchedSpec::Random { seed } => Chooser::Random(Rng::new(*seed)),
            SchedSpec::Sticky { seed, den } => Chooser::Sticky(Rng::new(*seed), (*den).max(1)),
            SchedSpec::RoundRobin => Chooser::RoundRobin,
            SchedSpec::Pct {
                seed,
                changes,
                horizon,
            } => {
                let mut rng = Rng::new(*seed);
                // random permutation of priorities nthreads+changes .. changes+1
                let mut prio: Vec<u32> = (0..nthreads as u32).map(|i| i + changes + 1).collect();
                for i in (1..prio.len()).rev() {
                    let j = rng.usize_below(i + 1);
                    prio.swap(i, j);
                }
                let mut change_at: Vec<u64> = (0..*changes)
                    .map(|_| rng.below((*horizon).max(1) as u64))
                    .collect();
                change_at.sort_unstable();
                Chooser::Pct {
                    prio,
                    change_at,
                    next_low: *changes,
                }
            }
            SchedSpec::Explicit { choices } => Chooser::Explicit(choices.clone(), 0),
        };
        Arc::new(Shared {
            inner: Mutex::new(Inner {
                current: 0,
                started: false,
                live: vec![true; nthreads],
                event_no: 0,
                log_hash: 0xcbf2_9ce4_8422_2325,
                interleave_hash: 0xcbf2_9ce4_8422_2325,
                delivery_hash: 0xcbf2_9ce4_8422_2325,
                trace: if trace { Some(Vec::new()) } else { None },
                chooser,
                choices: Vec::new(),
                switches: 0,
                sched_points: 0,
            }),
            cv: Condvar::new(),
            nthreads,
        })
    }

    /// Called by the main thread once all simulated threads are spawned.
    pub fn release(&self) {
        let mut g = self.inner.lock().unwrap();
        let first = g.choose(usize::MAX, self.nthreads);
        g.current = first;
        g.started = true;
        self.cv.notify_all();
    }

    pub fn finish_log(&self) -> RunLog {
        let mut g = self.inner.lock().unwrap();
        RunLog {
            events: g.event_no,
            log_hash: g.log_hash,
            interleave_hash: g.interleave_hash,
            delivery_hash: g.delivery_hash,
            choices: std::mem::take(&mut g.choices),
            switches: g.switches,
            sched_points: g.sched_points,
            trace: g.trace.take(),
        }
    }
}

impl Inner {
    fn record(&mut self, tid: usize, kind: EventKind, value: u64) {
        self.event_no += 1;
        let mut h = fnv_add(self.log_hash, tid as u64);
        h = fnv_add(h, kind as u64);
        h = fnv_add(h, value);
        self.log_hash = h;
        if matches!(
            kind,
            EventKind::Read | EventKind::Tick | EventKind::OpStart | EventKind::Finish
        ) {
            self.interleave_hash = fnv_add(self.interleave_hash, ((kind as u64) << 8) | tid as u64);
        }
        if kind == EventKind::ReadResult {
            self.delivery_hash = fnv_add(self.delivery_hash, value);
        }
        if let Some(t) = self.trace.as_mut() {
            t.push(format!("{} t{} {:?} {}", self.event_no, tid, kind, value));
        }
    }

    /// Pick the next thread to run.  `me` is the caller (usize::MAX for the
    /// initial choice); if `me` is not live it cannot be chosen.
    fn choose(&mut self, me: usize, n: usize) -> usize {
        let live: Vec<usize> = (0..n).filter(|&i| self.live[i]).collect();
        debug_assert!(!live.is_empty());
        let me_live = me < n && self.live[me];
        let evno = self.sched_points;
        self.sched_points += 1;
        let pick = match &mut self.chooser {
            Chooser::Random(rng) => live[rng.usize_below(live.len())],
            Chooser::Sticky(rng, den) => {
                if me_live && (live.len() == 1 || !rng.chance(1, *den as u64)) {
                    me
                } else {
                    let others: Vec<usize> = live.iter().copied().filter(|&i| i != me).collect();
                    if others.is_empty() {
                        me
                    } else {
                        others[rng.usize_below(others.len())]
                    }
                }
            }
            Chooser::RoundRobin => {
                let start = if me < n { me + 1 } else { 0 };
                (0..n).map(|k| (start + k) % n).find(|&i| self.live[i]).unwrap()
            }
            Chooser::Pct {
                prio,
                change_at,
                next_low,
            } => {
                while let Some(&c) = change_at.first() {
                    if c <= evno {
                        change_at.remove(0);
                        // demote the currently highest-priority live thread
                        if let Some(&top) = live.iter().max_by_key(|&&i| prio[i]) {
                            prio[top] = *next_low;
                            *next_low = next_low.saturating_sub(1);
                        }
                    } else {
                        break;
                    }
                }
                *live.iter().max_by_key(|&&i| prio[i]).unwrap()
            }
            Chooser::Explicit(list, idx) => {
                let c = list.get(*idx).copied();
                *idx += 1;
                match c {
                    Some(c) if (c as usize) < n && self.live[c as usize] => c as usize,
                    _ => {
                        if me_live {
                            me
                        } else {
                            live[0]
                        }
                    }
                }
            }
        };
        self.choices.push(pick as u32);
        pick
    }
}

/// Per-thread handle.
pub struct Ctx {
    pub tid: usize,
    shared: Arc<Shared>,
    stats: RefCell<FaultStats>,
}

impl Ctx {
    pub fn new(tid: usize, shared: Arc<Shared>) -> Ctx {
        Ctx {
            tid,
            shared,
            stats: RefCell::new(FaultStats::default()),
        }
    }

    pub fn with_stats<F: FnOnce(&mut FaultStats)>(&self, f: F) {
        f(&mut self.stats.borrow_mut());
    }

    pub fn stats(&self) -> FaultStats {
        *self.stats.borrow()
    }

    /// Block until this thread is given the baton for the first time.
    pub fn start(&self) {
        let mut g = self.shared.inner.lock().unwrap();
        while !(g.started && g.current == self.tid) {
            g = self.shared.cv.wait(g).unwrap();
        }
    }

    /// Record an event without offering to yield.
    pub fn log(&self, kind: EventKind, value: u64) {
        let mut g = self.shared.inner.lock().unwrap();
        g.record(self.tid, kind, value);
    }

    /// A scheduling point: record it, let the scheduler pick who runs next,
    /// and if that is someone else hand over the baton and wait for it.
    pub fn yield_point(&self, kind: EventKind) {
        let n = self.shared.nthreads;
        let mut g = self.shared.inner.lock().unwrap();
        g.record(self.tid, kind, 0);
        if n <= 1 {
            return;
        }
        if g.live.iter().filter(|&&l| l).count() <= 1 {
            return;
        }
        let next = g.choose(self.tid, n);
        if next != self.tid {
            g.switches += 1;
            g.current = next;
            self.stats.borrow_mut().switches += 1;
            self.shared.cv.notify_all();
            while g.current != self.tid {
                g = self.shared.cv.wait(g).unwrap();
            }
        }
    }

    /// This thread is done: give the baton away for good.
    pub fn finish(&self) {
        let n = self.shared.nthreads;
        let mut g = self.shared.inner.lock().unwrap();
        g.record(self.tid, EventKind::Finish, 0);
        g.live[self.tid] = false;
        if g.live.iter().any(|&l| l) {
            let next = g.choose(self.tid, n);
            g.current = next;
            self.shared.cv.notify_all();
        }
    }
}
