//! Building real `html2text::config::Config<D>` values from a `ConfigSpec`,
//! and the custom decorator used for C01's "custom ASCII decorator"
//! configurations.

use crate::scenario::{ConfigSpec, CustomDeco, Deco};
use html2text::config::{self, Config};
use html2text::render::{
    PlainDecorator, RichAnnotation, RichDecorator, TaggedLine, TextDecorator, TrivialDecorator,
};
use html2text::{Error, RenderTree};
use std::io::Read;

#[derive(Clone, Debug)]
pub struct AsciiDecorator {
    pub s: CustomDeco,
    /// nesting level: 0 for the decorator handed to the library, one more
    /// for every `make_subblock_decorator`
    pub depth: usize,
    /// links and images seen so far by this instance
    pub seen: usize,
}

impl AsciiDecorator {
    fn level(&self) -> &str {
        if self.s.per_level.is_empty() {
            ""
        } else {
            &self.s.per_level[self.depth % self.s.per_level.len()]
        }
    }
}

impl TextDecorator for AsciiDecorator {
    type Annotation = u8;

    fn decorate_link_start(&mut self, _url: &str) -> (String, u8) {
        self.seen += 1;
        (self.s.link_start.clone(), 1)
    }
    fn decorate_link_end(&mut self) -> String {
        if self.s.counting {
            format!("{}{}", self.s.link_end, self.seen)
        } else {
            self.s.link_end.clone()
        }
    }
    fn decorate_em_start(&self) -> (String, u8) {
        (self.s.em.0.clone(), 2)
    }
    fn decorate_em_end(&self) -> String {
        self.s.em.1.clone()
    }
    fn decorate_strong_start(&self) -> (String, u8) {
        (self.s.strong.0.clone(), 3)
    }
    fn decorate_strong_end(&self) -> String {
        self.s.strong.1.clone()
    }
    fn decorate_strikeout_start(&self) -> (String, u8) {
        (self.s.strike.0.clone(), 4)
    }
    fn decorate_strikeout_end(&self) -> String {
        self.s.strike.1.clone()
    }
    fn decorate_code_start(&self) -> (String, u8) {
        (self.s.code.0.clone(), 5)
    }
    fn decorate_code_end(&self) -> String {
        self.s.code.1.clone()
    }
    fn decorate_preformat_first(&self) -> u8 {
        6
    }
    fn decorate_preformat_cont(&self) -> u8 {
        7
    }
    fn decorate_image(&mut self, _src: &str, title: &str) -> (String, u8) {
        self.seen += 1;
        if self.s.counting {
            (format!("{}{}{}{}", self.s.img.0, title, self.s.img.1, self.seen), 8)
        } else {
            (format!("{}{}{}", self.s.img.0, title, self.s.img.1), 8)
        }
    }
    fn header_prefix(&self, level: usize) -> String {
        format!("{}{}", self.s.header.repeat(level.min(8)), self.level())
    }
    fn quote_prefix(&self) -> String {
        format!("{}{}", self.s.quote, self.level())
    }
    fn unordered_item_prefix(&self) -> String {
        format!("{}{}", self.s.ul, self.level())
    }
    fn ordered_item_prefix(&self, i: i64) -> String {
        if self.s.ol_labels.is_empty() {
            format!("{}{}{}", i, self.s.ol_suffix, self.level())
        } else {
            let n = self.s.ol_labels.len() as i64;
            format!("{}{}{}", self.s.ol_labels[i.rem_euclid(n) as usize], self.s.ol_suffix, self.level())
        }
    }
    fn make_subblock_decorator(&self) -> Self {
        // a decorator may carry per-level state: that is what this method is for
        let mut d = self.clone();
        d.depth += 1;
        d
    }
    fn decorate_superscript_start(&self) -> (String, u8) {
        (self.s.sup.0.clone(), 9)
    }
    fn decorate_superscript_end(&self) -> String {
        self.s.sup.1.clone()
    }
}

/// Outcome of building a configuration.
pub enum Built<D: TextDecorator> {
    Ok(Config<D>),
    /// add_css / add_agent_css rejected a sheet (an accepted result)
    CssRejected,
    /// building returned some other error (never acceptable)
    Other(String),
}

fn apply<D: TextDecorator>(mut c: Config<D>, spec: &ConfigSpec) -> Built<D> {
    // The builder calls, as numbered steps; step 11 + i adds the i-th sheet.
    // Canonical order unless the scenario carries a permutation seed, in which
    // case the steps are shuffled and a few are made twice ("every
    // configuration reachable through the public builder" includes every order
    // of calls).  Sheets keep their relative order: it is significant in CSS.
    let mut steps: Vec<usize> = (0..11).collect();
    if spec.builder_order != 0 {
        let mut rng = crate::prng::Rng::new(spec.builder_order);
        for i in (1..steps.len()).rev() {
            let j = rng.usize_below(i + 1);
            steps.swap(i, j);
        }
        for _ in 0..rng.urange(0, 3) {
            let dup = steps[rng.usize_below(steps.len())];
            let at = rng.usize_below(steps.len() + 1);
            steps.insert(at, dup);
        }
        // interleave the sheets at random positions, in their own order
        let mut pos: Vec<usize> = (0..spec.css.len()).map(|_| rng.usize_below(steps.len() + 1)).collect();
        pos.sort();
        for (i, p) in pos.into_iter().enumerate().rev() {
            steps.insert(p, 11 + i);
        }
    } else {
        steps.extend((0..spec.css.len()).map(|i| 11 + i));
    }
    for step in steps {
        match step {
            0 => {
                if spec.do_decorate {
                    c = c.do_decorate();
                }
            }
            1 => {
                if let Some(b) = spec.link_footnotes {
                    c = c.link_footnotes(b);
                }
            }
            2 => {
                if spec.allow_width_overflow {
                    c = c.allow_width_overflow();
                }
            }
            3 => {
                if let Some(k) = spec.min_wrap_width {
                    c = c.min_wrap_width(k);
                }
            }
            4 => {
                if let Some(k) = spec.max_wrap_width {
                    c = c.max_wrap_width(k);
                }
            }
            5 => {
                if spec.pad_block_width {
                    c = c.pad_block_width();
                }
            }
            6 => {
                if let Some(b) = spec.raw_mode {
                    c = c.raw_mode(b);
                }
            }
            7 => {
                if spec.no_table_borders {
                    c = c.no_table_borders();
                }
            }
            8 => {
                if spec.no_link_wrapping {
                    c = c.no_link_wrapping();
                }
            }
            9 => {
                if let Some(b) = spec.unicode_strikeout {
                    c = c.unicode_strikeout(b);
                }
            }
            10 => {
                if spec.use_doc_css {
                    c = c.use_doc_css();
                }
            }
            n => {
                let css = &spec.css[n - 11];
                let r = if css.agent {
                    c.add_agent_css(&css.text)
                } else {
                    c.add_css(&css.text)
                };
                match r {
                    Ok(next) => c = next,
                    Err(Error::CssParseError) => return Built::CssRejected,
                    Err(e) => return Built::Other(format!("{:?}", e)),
                }
            }
        }
    }
    Built::Ok(c)
}

/// A decorator family the simulator can instantiate.
pub trait SimDeco: TextDecorator + Clone + Send + Sync + 'static
where
    Self::Annotation: Send,
{
    fn base(spec: &ConfigSpec) -> Config<Self>;
    fn build(spec: &ConfigSpec) -> Built<Self> {
        apply(Self::base(spec), spec)
    }
    /// `Config::coloured` with an identity colour map (rich only).
    fn coloured<R: Read>(_cfg: Config<Self>, _r: R, _w: usize) -> Option<Result<String, Error>> {
        None
    }
    /// `Config::render_coloured` with an identity colour map (rich only).
    fn render_coloured(
        _cfg: &Config<Self>,
        _t: RenderTree,
        _w: usize,
    ) -> Option<Result<String, Error>> {
        None
    }
    fn fresh(spec: &ConfigSpec) -> Self;
}

fn ident(_: &[RichAnnotation], s: &str) -> String {
    s.to_string()
}

impl SimDeco for PlainDecorator {
    fn base(spec: &ConfigSpec) -> Config<Self> {
        match spec.decorator {
            Deco::PlainNoDecorate => config::plain_no_decorate(),
            _ => config::plain(),
        }
    }
    fn fresh(_: &ConfigSpec) -> Self {
        PlainDecorator::new()
    }
}

impl SimDeco for TrivialDecorator {
    fn base(_: &ConfigSpec) -> Config<Self> {
        config::with_decorator(TrivialDecorator::new())
    }
    fn fresh(_: &ConfigSpec) -> Self {
        TrivialDecorator::new()
    }
}

impl SimDeco for RichDecorator {
    fn base(_: &ConfigSpec) -> Config<Self> {
        config::rich()
    }
    fn coloured<R: Read>(cfg: Config<Self>, r: R, w: usize) -> Option<Result<String, Error>> {
        Some(cfg.coloured(r, w, ident))
    }
    fn render_coloured(cfg: &Config<Self>, t: RenderTree, w: usize) -> Option<Result<String, Error>> {
        Some(cfg.render_coloured(t, w, ident))
    }
    fn fresh(_: &ConfigSpec) -> Self {
        RichDecorator::new()
    }
}

impl SimDeco for AsciiDecorator {
    fn base(spec: &ConfigSpec) -> Config<Self> {
        config::with_decorator(Self::fresh(spec))
    }
    fn fresh(spec: &ConfigSpec) -> Self {
        match &spec.decorator {
            Deco::Custom { strings } => AsciiDecorator { s: strings.clone(), depth: 0, seen: 0 },
            _ => unreachable!(),
        }
    }
}

/// Join tagged lines into the text they carry (one '\n' per line), which is
/// what the string routes produce.
pub fn join_lines<A: std::fmt::Debug + Eq + Clone + Default>(lines: &[TaggedLine<Vec<A>>]) -> String {
    let mut s = String::new();
    for l in lines {
        for ts in l.tagged_strings() {
            s.push_str(&ts.s);
        }
        s.push('\n');
    }
    s
}
