//! C01: rendering is total.  Scenario generation (grammar + delivery faults,
//! transport corruption, CSS-heavy, deep nesting x stack size, extremes) and
//! the oracle.

use crate::exec::{Outcome, RunResult};
use crate::gen::*;
use crate::prng::Rng;
use crate::scenario::*;

/// Flat, deliberately generous step budget (simulated time) per thread.
pub const FUEL: u64 = 2_000_000_000;

fn nest_doc(rng: &mut Rng, quick: bool) -> (DocSpec, &'static str) {
    // (open, close, max depth, label)
    let kinds: &[(&str, &str, u32, &'static str)] = &[
        ("<span>", "</span>", 100_000, "span"),
        ("<span>", "</span>", 100_000, "span"),
        ("<em>", "</em>", 100_000, "em"),
        ("<code>", "</code>", 100_000, "code"),
        ("<sup>", "</sup>", 100_000, "sup"),
        ("<a href=x>", "</a>", 20_000, "a"),
        ("<font color=red>", "</font>", 20_000, "font"),
        ("<x-y>", "</x-y>", 100_000, "unknown"),
        ("<ins>", "</ins>", 100_000, "ins"),
        ("<table><tr><td>", "</td></tr></table>", 3_000, "table"),
        ("<div>", "</div>", 3_000, "div"),
        ("<ul><li>", "</li></ul>", 3_000, "ul"),
        ("<ol start=5><li>", "</li></ol>", 3_000, "ol"),
        ("<blockquote>", "</blockquote>", 3_000, "blockquote"),
        ("<dl><dd>", "</dd></dl>", 3_000, "dl"),
        ("<p><b>", "</b></p>", 3_000, "p-b"),
        ("<h3>", "</h3>", 3_000, "h3"),
        ("<pre>", "</pre>", 3_000, "pre"),
        ("<span class=c0 id=i0>", "</span>", 100_000, "span-attrs"),
        // nesting THROUGH the parts of a table (what the library does with a
        // caption, a header section, a header cell is its own business)
        ("<table><caption>x", "</caption><tr><td>y</td></tr></table>", 30_000, "table-caption"),
        ("<table><caption>x", "</caption><tr><td>y</td></tr></table>", 30_000, "table-caption"),
        ("<table><thead><tr><th>", "</th></tr></thead></table>", 3_000, "table-thead"),
        ("<table><tfoot><tr><td>a</td><td>", "</td></tr></tfoot></table>", 3_000, "table-tfoot"),
        ("<dl><dt>", "</dt></dl>", 3_000, "dl-dt"),
        ("<ul><li>a</li><li>", "</li></ul>", 3_000, "ul-second-item"),
        ("<q>", "</q>", 100_000, "q"),
        ("<small>", "</small>", 100_000, "small"),
        ("<label>", "</label>", 100_000, "label"),
        ("<center>", "</center>", 3_000, "center"),
        ("<li>", "</li>", 3_000, "li"),
        ("<h2>", "</h2>", 3_000, "h2"),
        ("<a name=n>", "</a>", 20_000, "a-name"),
        ("<img src=a alt=b><span>", "</span>", 100_000, "img-span"),
        ("<s>", "</s>", 100_000, "s"),
        ("<strong>", "</strong>", 100_000, "strong"),
    ];
    // Breadth instead of depth, one time in six: tens of thousands of
    // siblings (cells, rows, items, paragraphs, links ...), as
    // prefix + item x n + second item x m.  Linear for the library except
    // where noted; a table of n cells in one row and m further rows is the
    // case that found the per-row copy of the column widths (rows x columns
    // x 8 bytes).
    if rng.chance(1, 6) {
        let wide: &[(&str, &str, &str, &'static str)] = &[
            ("<table><tr>", "<td>", "<tr>", "wide:sparse-table"),
            ("<table><tr>", "<td>x", "<tr><td>y", "wide:sparse-table-text"),
            ("<table>", "<tr><td>x", "", "wide:rows"),
            ("<table><tr>", "<td>x", "", "wide:cols"),
            ("<table>", "<tr><td>a<td>b<td>c", "", "wide:rows3"),
            ("<table><tr>", "<td><p>a<p>b", "", "wide:cols-blocks"),
            ("<table>", "<col>", "<tr><td>x", "wide:col-elements"),
            ("<ul>", "<li>x", "", "wide:ul"),
            ("<ol>", "<li>x", "", "wide:ol"),
            ("<ol start=-5>", "<li>", "<li>x", "wide:ol-empty-items"),
            ("", "<p>x", "", "wide:p"),
            ("", "<br>", "<p>x", "wide:br-then-p"),
            ("<dl>", "<dt>a<dd>b", "", "wide:dl"),
            ("", "<a href=u>l</a> ", "", "wide:links"),
            ("", "<a href=u id=i0 name=n></a>", "x ", "wide:empty-links"),
            ("", "<img src=a alt=b>", "", "wide:imgs"),
            ("<pre>", "x\n", "", "wide:pre-lines"),
            ("<pre>", "\t", "a\t\n", "wide:pre-tabs"),
            ("", "<hr>", "", "wide:hr"),
            ("<select>", "<option>a", "", "wide:options"),
            ("", "x<sup>1</sup> ", "", "wide:sups"),
            ("", "<h1>t", "<h6>u", "wide:headings"),
            ("", "<blockquote>q</blockquote>", "", "wide:quotes"),
            ("", "<div id=i0>d</div>", "<span id=i1></span>", "wide:ids"),
            ("<p>", "\u{263a}\u{fe0f} ", "", "wide:sequences"),
            ("<p>", "&amp;", "&#x5bbd;", "wide:entities"),
            ("", "<!-- c -->", "x<!---->", "wide:comments"),
            ("<style>", "p{color:red;}", "", "wide:rules-in-style"),
        ];
        let (prefix, item, second, label) = rng.pick(wide);
        let counts: &[u32] = if quick { &[300, 4_000, 32_000] } else { &[10, 300, 4_000, 16_000, 32_000] };
        // the first count sometimes passes the 16-bit limits (a counter or an
        // index narrowed to u16/i16 by a change)
        let n = if rng.chance(1, 5) { 70_000 } else { rng.pick(counts) };
        let m = if second.is_empty() { 0 } else { rng.pick(counts) };
        let suffix = rng.pick(&["", "", "tail", "<p>after</p>", "</table>"]);
        return (
            DocSpec::Nest {
                prefix: Blob(prefix.as_bytes().to_vec()),
                open: Blob(item.as_bytes().to_vec()),
                depth: n,
                inner: Blob(Vec::new()),
                close: Blob(second.as_bytes().to_vec()),
                closes: m,
                suffix: Blob(suffix.as_bytes().to_vec()),
            },
            label,
        );
    }
    let (mut open, mut close, mut maxd, label) = {
        let (a, b, c, d) = rng.pick(kinds);
        (a.to_string(), b.to_string(), c, d)
    };
    // one time in four: any element at all, from the complete lists (special
    // elements make the HTML parser's scope checks quadratic in depth, so
    // they stay shallow; phrasing and unknown elements go deep)
    if rng.chance(1, 4) {
        let (tag, cap) = if rng.chance(1, 2) {
            (rng.pick(SPECIAL_TAGS), 3_000)
        } else {
            (rng.pick(PHRASING_TAGS), if rng.chance(1, 2) { 100_000 } else { 20_000 })
        };
        // <a> inside <a> and <nobr> inside <nobr> close each other; still fine as input
        let mut o = format!("<{}", tag);
        if rng.chance(1, 3) {
            gen_generic_attr(rng, &mut o);
        }
        o.push('>');
        if rng.chance(1, 4) {
            o.push_str(rng.pick(&["t", "<br>", "<img src=a alt=b>", "&amp;"]));
        }
        open = o;
        close = format!("</{}>", tag);
        maxd = cap;
    }
    let depth_choices: &[u32] = if quick {
        &[200, 3_000, 30_000, 100_000, 100_000]
    } else {
        &[10, 100, 1_000, 3_000, 10_000, 20_000, 50_000, 100_000, 100_000]
    };
    let depth = (rng.pick(depth_choices)).min(maxd);
    let inner = rng.pick(&["x", "", "宽", "hello world", "<br>", "<img src=a alt=b>", "\t", "a<p>b"]);
    // the chain hangs under one of these (each is a place where the library
    // treats the children specially: filtering, discarding, wrapping, prefixing)
    let prefix = rng.pick(&[
        "", "", "<p>宽</p>", "<p>宽</p><p>y</p>", "<ol><li>a</li>", "<table><caption>", "<ol>", "<dl>", "<a href=u>",
        "<a href=u>", "<a name=n>", "<table><tr><td>x</td></tr>", "<p>first</p>", "<ul><li>",
        "<style>span span span{color:red;}</style>", "<pre>", "<h1>", "<blockquote>", "<dl><dt>", "<sup>",
        "<table><tr><td>", "<div id=i1>", "<ol start=7><li>", "<s>", "<img src=a alt=b>",
    ]);
    let suffix = rng.pick(&["", "", "tail", "<p>after</p>", "</table>", "宽"]);
    let closes = match rng.below(4) {
        0 => 0,
        1 => depth / 2,
        _ => depth,
    };
    (
        DocSpec::Nest {
            prefix: Blob(prefix.as_bytes().to_vec()),
            open: Blob(open.as_bytes().to_vec()),
            depth,
            inner: Blob(inner.as_bytes().to_vec()),
            close: Blob(close.as_bytes().to_vec()),
            closes,
            suffix: Blob(suffix.as_bytes().to_vec()),
        },
        label,
    )
}

pub fn generate(run_seed: u64, quick: bool) -> Scenario {
    // Concurrent callers: "never panics, aborts or fails to terminate" also
    // holds when several caller threads use the library at overlapping times
    // (one shared Config, trees and clones handed between threads).  One run
    // in twenty-five borrows C10's interleaved workload - standard
    // decorators, documents up to 32 KiB, 2-4 threads under the baton
    // scheduler with preemption inside parsing and rendering - and judges
    // every op by C01's oracle only (no reference, no comparison).
    if Rng::stream(run_seed, 7).chance(1, 25) {
        let mut s = crate::c10::generate_class(run_seed, Some(2));
        s.property = "C01".into();
        s.class = "concurrent".into();
        s.repeat_check = false;
        s.fresh_reference = false;
        return s;
    }
    let mut wl = Rng::stream(run_seed, 1);
    let mut fr = Rng::stream(run_seed, 2);
    let mut er = Rng::stream(run_seed, 4);

    let class = wl.weighted(&[56, 20, 10, 8, 6]);
    let class_name = ["grammar", "corrupt", "css", "deep", "extreme"][class];

    // --- width (drawn first: it bounds the document size, see below)
    let extreme = class == 4;
    let mut width = gen_width(&mut wl, true);
    if extreme && wl.chance(2, 3) {
        width = wl.pick(&[100_000usize, usize::MAX, usize::MAX - 1, 1 << 32, 65_536]);
    }
    if class == 3 {
        width = wl.pick(&[0usize, 0, 1, 1, 2, 3, 5, 10, 40, 80, 80, 200]);
    }

    // --- document
    let mut corrupt_events = 0;
    let mut wide = false;
    let doc: DocSpec = if class == 3 {
        let (d, label) = nest_doc(&mut wl, quick);
        wide = label.starts_with("wide:");
        d
    } else {
        let size = wl.weighted(&[25, 42, 26, if quick { 3 } else { 7 }]);
        let mut target = match size {
            0 => wl.urange(0, 64),
            1 => wl.urange(65, 1200),
            2 => wl.urange(3000, 16000),
            _ => wl.urange(16000, 200_000),
        };
        // A table column is as wide as its content even when the text in it
        // is wrapped narrowly, and every line of a cell is padded to the
        // column: the *result* can be (lines x column width), i.e. quadratic
        // in the document when the width does not bound it (3.5 GB for an
        // 80 KB document at width 2^32 with max_wrap_width(1)).  That is the
        // size of the requested output, not a defect; unbounded widths get
        // documents small enough for it to stay in the tens of megabytes.
        if width > 1000 {
            target = target.min(6000);
        }
        let mut p = DocParams::swarm(&mut wl, target);
        if class == 2 {
            p.attrs = true;
            p.style_elems = true;
        }
        if class == 4 {
            p.huge_nums = true;
            p.tables = true;
            p.lists = true;
        }
        let mut bytes = if wl.chance(1, 7) {
            // small scope: a few minimal constructs and nothing else
            gen_micro_doc(&mut wl)
        } else if wl.chance(1, 4) {
            // realistic markup harvested from the repository's own test inputs
            gen_doc_from_seeds(&mut wl, target, &p.mix, p.huge_nums)
        } else {
            gen_doc(&mut wl, p)
        };
        if class == 1 {
            corrupt_events = corrupt(&mut fr, &mut bytes);
        }
        DocSpec::Bytes { bytes: Blob(bytes) }
    };
    let doc_bytes_len;
    let interesting;
    {
        let m = doc.materialise();
        doc_bytes_len = m.len();
        interesting = if m.len() <= 300_000 && class != 3 {
            interesting_offsets(&m)
        } else {
            // deep documents: a few offsets around tag boundaries
            let mut v: Vec<usize> = (1..m.len().min(64)).collect();
            let mut k = 4096;
            while k < m.len() {
                v.push(k - 1);
                v.push(k);
                v.push(k + 1);
                k += 4096;
            }
            v.retain(|&o| o < m.len());
            v
        };
    }

    let bounded_width = width <= 200;

    // --- configuration
    let cg = ConfigGen {
        allow_custom: true,
        allow_css: true,
        allow_pad: bounded_width,
        extreme_values: true,
        sloppy_css: class == 2 || wl.chance(1, 4),
    };
    let mut config = gen_config(&mut wl, &cg);
    if class == 2 {
        config.use_doc_css = wl.chance(3, 4);
        if config.css.is_empty() || wl.chance(1, 2) {
            let mut text = String::new();
            match wl.below(5) {
                4 => {
                    // very long selectors.  Matching costs (components x
                    // elements), so the length is bounded by the document.
                    let nmax = (20_000_000 / doc_bytes_len.max(64)).clamp(10, 100_000);
                    let n = if wl.chance(1, 2) { nmax } else { wl.urange(10, nmax) };
                    text = gen_long_selector_sheet(&mut wl, n);
                }
                0 => {
                    let n = wl.urange(1, 60);
                    gen_css_soup(&mut wl, &mut text, n)
                }
                1 => {
                    gen_sheet(&mut wl, &mut text, 8, true);
                    // truncation of a (mostly) valid sheet
                    if !text.is_empty() {
                        let mut cut = wl.usize_below(text.len());
                        while !text.is_char_boundary(cut) {
                            cut -= 1;
                        }
                        text.truncate(cut);
                    }
                }
                2 => {
                    // adversarial descendant chains
                    let tag = wl.pick(&["span", "div", "li", "td", "em"]);
                    let steps = wl.urange(2, 12);
                    text = gen_chain_selector(&mut wl, tag, steps);
                }
                _ => gen_sheet(&mut wl, &mut text, 12, false),
            }
            config.css.push(CssSpec {
                agent: wl.chance(1, 3),
                text,
            });
        }
    }
    if class == 3 {
        // deep nesting with CSS descendant chains is the adversarial selector case
        if wl.chance(1, 4) {
            config.use_doc_css = true;
        }
    }
    // Very long decorator strings (up to 10^4 characters) multiply with the
    // number of decorated elements: 3000 nested <s> with a 20 000-character
    // strike marker is 10^8 characters of requested output (met as an
    // `abort:oom` in the first quick run that had them).  They go with small
    // documents only.
    if class == 3 || doc_bytes_len > 6000 {
        if let Deco::Custom { strings } = &mut config.decorator {
            let clamp = |s: &mut String| {
                if s.len() > 60 {
                    s.truncate(60);
                }
            };
            clamp(&mut strings.link_start);
            clamp(&mut strings.link_end);
            for pair in [
                &mut strings.em,
                &mut strings.strong,
                &mut strings.strike,
                &mut strings.code,
                &mut strings.img,
                &mut strings.sup,
            ] {
                clamp(&mut pair.0);
                clamp(&mut pair.1);
            }
            clamp(&mut strings.header);
            clamp(&mut strings.quote);
            clamp(&mut strings.ul);
        }
    }
    // pad_block_width: bounded widths only
    if !bounded_width {
        config.pad_block_width = false;
    }
    // A huge min_wrap_width acts like an unbounded width when overflow is
    // allowed: every block is forced to be as wide as its whole text, and if
    // the text is also wrapped narrowly (max_wrap_width) the result is again
    // lines x block width - 8 GB for a 90 KB document, met as an `abort:oom` at
    // run 2 820 704 of the thorough tier.  Same envelope as for unbounded widths:
    // such values only go with small documents.
    if let Some(k) = config.min_wrap_width {
        if k > 1000 && doc_bytes_len > 6000 {
            config.min_wrap_width = Some(wl.pick(&[0usize, 1, 3, 10, 40]));
        }
    }
    // --- route
    let pg = PlanGen {
        eintr: true,
        scribble: true,
        cut: true,
        hard_error: true,
    };
    let mut plan = |fr: &mut Rng| -> ReadPlan {
        if class == 3 && doc_bytes_len > 200_000 {
            // keep deep runs cheap: few reads
            let mut p = ReadPlan::default();
            if fr.chance(1, 3) {
                p.steps = vec![ReadStep::Data(1), ReadStep::Eintr, ReadStep::Scribble(7)];
            }
            p
        } else {
            gen_plan(fr, doc_bytes_len, &interesting, &pg)
        }
    };
    let mut ops = Vec::new();
    let route = wl.weighted(&[18, 12, 8, 6, 4, 4, 6, 6, 36]);
    match route {
        0 => ops.push(Op::OneShotString {
            w: width,
            plan: plan(&mut fr),
        }),
        1 => ops.push(Op::OneShotLines {
            w: width,
            plan: plan(&mut fr),
        }),
        2 => {
            config.decorator = Deco::Rich;
            ops.push(Op::OneShotColoured {
                w: width,
                plan: plan(&mut fr),
            })
        }
        3 => {
            config = ConfigSpec::base(Deco::Plain);
            ops.push(Op::FreeFromRead {
                w: width,
                plan: plan(&mut fr),
            })
        }
        4 => {
            // the free function uses config::rich() whatever the recipe says
            config = ConfigSpec::base(Deco::Rich);
            ops.push(Op::FreeFromReadRich {
                w: width,
                plan: plan(&mut fr),
            })
        }
        5 => {
            config = ConfigSpec::base(Deco::Rich);
            ops.push(Op::FreeFromReadColoured {
                w: width,
                plan: plan(&mut fr),
            })
        }
        6 => ops.push(Op::FreeWithDecorator {
            w: width,
            plan: plan(&mut fr),
        }),
        7 => {
            ops.push(Op::FreeParse {
                plan: plan(&mut fr),
                tree: 0,
            });
            ops.push(Op::RenderString {
                tree: 0,
                w: width,
                consume: wl.chance(1, 2),
            });
        }
        _ => {
            ops.push(Op::ParseDom {
                plan: plan(&mut fr),
                dom: 0,
            });
            ops.push(Op::BuildTree { dom: 0, tree: 0 });
            if wl.chance(1, 3) {
                ops.push(Op::DropDom { dom: 0 });
            }
            let mut t = 0;
            if wl.chance(1, 3) {
                ops.push(Op::CloneTree { from: 0, to: 1 });
                t = 1;
            }
            let consume = wl.chance(1, 2);
            let rich = matches!(config.decorator, Deco::Rich);
            let k = wl.weighted(&[50, 30, if rich { 20 } else { 0 }]);
            ops.push(match k {
                0 => Op::RenderString {
                    tree: t,
                    w: width,
                    consume,
                },
                1 => Op::RenderLines {
                    tree: t,
                    w: width,
                    consume,
                },
                _ => Op::RenderColoured {
                    tree: t,
                    w: width,
                    consume,
                },
            });
            if wl.chance(1, 3) {
                // a second render at another width (error-path drops, reuse)
                let w2 = if class == 3 {
                    wl.pick(&[0usize, 1, 2, 80])
                } else {
                    gen_width(&mut wl, false)
                };
                ops.push(Op::RenderString {
                    tree: 0,
                    w: w2,
                    consume: true,
                });
            }
            if wl.chance(1, 4) {
                ops.push(Op::DropTree { tree: 0 });
            }
        }
    }

    // Rich and custom decorators attach the whole stack of enclosing
    // annotations to every piece of text.  With d nested annotating elements
    // that each emit text (decoration, superscript brackets, footnote marks)
    // the *output itself* is of size d^2/2 annotations - tens of gigabytes at
    // d = 10^5.  That is the size of the requested result, not a defect, so
    // such combinations keep d <= 3000; deeper nests use non-annotating
    // elements or the unit-annotation decorators.
    let mut doc = doc;
    if !wide && matches!(config.decorator, Deco::Rich | Deco::Custom { .. }) {
        if let DocSpec::Nest { open, depth, closes, .. } = &mut doc {
            let plain_kind = open.0.starts_with(b"<span") || open.0.starts_with(b"<x-y") || open.0.starts_with(b"<div");
            if !plain_kind && *depth > 3000 {
                *depth = 3000;
                *closes = (*closes).min(3000);
            }
        }
    }

    // Selector matching is legitimately quadratic in nesting depth when a
    // descendant selector has to walk to the root for every element (N x d/2
    // steps; 2*10^8 at d = 20000).  Deep nests combined with CSS keep d <= 500 so
    // that such work stays far below the fuel; the linear deep-selector case
    // lives in the corpus (selector-descendant-deep-recursion).
    let has_css = !config.css.is_empty()
        || (config.use_doc_css && {
            let m = doc.materialise();
            m.windows(6).any(|w| w.eq_ignore_ascii_case(b"<style")) || m.windows(6).any(|w| w == b"style=")
        });
    // Breadth with CSS: `:nth-child` finds an element's index by scanning its
    // siblings, for every (rule, element) pair - rules x n^2 steps, 10^10 for ten
    // rules over 32000 siblings.  Polynomial and the library's documented way of
    // working (a stated limit, DESIGN section 12), so such documents stay at 1500 + 1500 siblings
    // (measured: 1.8*10^8 steps for 3000 + 3000 siblings under ten rules).
    if has_css && wide {
        if let DocSpec::Nest { depth, closes, .. } = &mut doc {
            *depth = (*depth).min(1500);
            *closes = (*closes).min(1500);
        }
    }
    if has_css && !wide {
        if let DocSpec::Nest { depth, closes, .. } = &mut doc {
            if *depth > 500 {
                *depth = 500;
                *closes = (*closes).min(500);
            }
        }
    }
    // Stack size is part of the environment: 8 MiB (main thread on Linux),
    // 2 MiB (std::thread default), 1 MiB (main thread on Windows) and, for
    // the deep class only, 256 KiB (small worker-thread stacks; musl's default
    // is 128 KiB).  The unchanged library renders 10^5-deep nests on 128 KiB.
    let stack_kib = if class == 3 {
        er.pick(&[256u32, 1024, 2048, 2048, 8192])
    } else {
        if class == 2 { er.pick(&[256u32, 1024, 2048, 8192]) } else { er.pick(&[2048u32, 8192]) }
    };
    Scenario {
        property: "C01".into(),
        class: class_name.into(),
        run_seed,
        doc,
        config,
        threads: vec![ThreadSpec {
            stack_kib,
            ops,
            preempt_ticks: vec![],
            preempt_sites: vec![],
            preempt_hit: vec![],
        }],
        sched: SchedSpec::RoundRobin,
        fuel: crate::eval::fuel_override().unwrap_or(FUEL),
        corrupt_events: corrupt_events as u32,
        variants: vec![],
        repeat_check: false,
        fresh_reference: false,
        env: gen_env(&mut er),
    }
}

pub fn normalise_msg(msg: &str) -> String {
    let mut out = String::new();
    let mut last_digit = false;
    for c in msg.chars().take(64) {
        if c.is_ascii_digit() {
            if !last_digit {
                out.push('#');
            }
            last_digit = true;
        } else {
            last_digit = false;
            out.push(if c.is_control() { ' ' } else { c });
        }
    }
    out
}

fn loc_file(loc: &str) -> String {
    // "/repo/src/lib.rs:2085:30" -> "html2text/src/lib.rs:2085"; registry paths -> crate dir + file
    let mut parts = loc.split(':');
    let path = parts.next().unwrap_or(loc);
    let line = parts.next().unwrap_or("?");
    format!("{}:{}", loc_path(path), line)
}

fn loc_path(path: &str) -> String {
    if let Some(i) = path.find("/src/") {
        let head = &path[..i];
        let krate = head.rsplit('/').next().unwrap_or("");
        let krate = if krate == "repo" { "html2text" } else { krate };
        format!("{}{}", krate, &path[i..])
    } else {
        path.to_string()
    }
}

pub struct Verdict {
    pub violation: Option<Violation>,
}

/// The oracle: every op returns text / lines / the too-narrow error; an I/O
/// error only if the simulated reader really raised a hard error in that op;
/// a CSS parse error only from add_css/add_agent_css.  No panic, no fuel
/// exhaustion.  (Aborts and hangs are detected by the driver.)
pub fn check(scen: &Scenario, res: &RunResult) -> Verdict {
    let viol = |kind: &str, sig: String, detail: String| Verdict {
        violation: Some(Violation {
            property: "C01".into(),
            kind: kind.into(),
            signature: sig,
            detail,
        }),
    };
    let mut all: Vec<(String, &Outcome, bool, Option<usize>)> = Vec::new();
    all.push(("BuildConfig".into(), &res.config_outcome, false, None));
    for r in &res.records {
        all.push((r.name.to_string(), &r.outcome, r.reader_errored, r.width));
    }
    for (name, o, reader_errored, width) in all {
        match o {
            Outcome::Text(_) | Outcome::Lines { .. } | Outcome::TooNarrow | Outcome::Unit | Outcome::Skipped => {}
            Outcome::CssRejected => {
                // only reachable through add_css/add_agent_css while building a configuration
            }
            Outcome::IoError(k) => {
                if !reader_errored {
                    return viol(
                        "bad_result",
                        format!("bad_result:IoError:{}", name),
                        format!("{} returned Err(IoError({})) although the reader raised no hard error", name, k),
                    );
                }
            }
            Outcome::OtherErr(e) => {
                return viol(
                    "bad_result",
                    format!("bad_result:{}:{}", normalise_msg(e), name),
                    format!("{} (width {:?}) returned Err({}) — neither text nor TooNarrow", name, width, e),
                );
            }
            Outcome::Panic { msg, loc } => {
                return viol(
                    "panic",
                    format!("panic:{}@{}", normalise_msg(msg), loc_file(loc)),
                    format!("{} (width {:?}) panicked: {} at {}", name, width, msg, loc),
                );
            }
            Outcome::Fuel => {
                return viol(
                    "fuel",
                    format!("fuel:{}", name),
                    format!(
                        "{} (width {:?}) did not return within {} simulated steps (fails to terminate)",
                        name, width, scen.fuel
                    ),
                );
            }
        }
    }
    Verdict { violation: None }
}
