//! HTML snippets harvested once from the inputs of the repository's own tests
//! (src/tests.rs at the pinned commit) by a throw-away script: realistic,
//! feature-rich seed documents for the workload generator, which combines,
//! nests and corrupts them.  Static data; nothing is read from /repo at run time.

pub const SEEDS: &[&str] = &[
    r#"
   <table>
     <tr>
       <td>1</td>
       <td>2</td>
       <td>3</td>
     </tr>
   </table>
"#,
    r#"
   <table>
     <tr>
       <td>1</td>
       <td>2</td>
       <td>3</td>
     </tr>
     <tr>
       <td>4</td>
       <td>5</td>
       <td>6</td>
     </tr>
   </table>
"#,
    r#"
   <table>
     <thead>
       <tr>
         <th>Col1</th>
         <th>Col2</th>
         <th>Col3</th>
       </tr>
     </thead>
     <tbody>
       <tr>
         <td>1</td>
         <td>2</td>
         <td>3</td>
       </tr>
     </tbody>
   </table>
"#,
    r#"
   <table>
     <tr>
       <td>1</td>
       <td>2</td>
       <td>3</td>
     </tr>
     <tr>
       <td colspan="2">12</td>
       <td>3</td>
     </tr>
     <tr>
       <td>1</td>
       <td colspan="2">23</td>
     </tr>
   </table>
"#,
    r#"
   <table>
     <tr>
       <td>1</td>
       <td>2</td>
       <td>3</td>
     </tr>
     <tr>
       <td colspan="2">12</td>
       <td>3</td>
     </tr>
     <tr>
       <td>1</td>
       <td colspan="0">23</td>
     </tr>
   </table>
"#,
    r#"
   <table>
     <tr>
       <td>1</td>
       <td>2</td>
       <td>3</td>
     </tr>
     <tr>
       <td colspan="2">12</td>
       <td>3</td>
     </tr>
     <tr>
       <td>1</td>
       <td colspan="99">23</td>
     </tr>
   </table>
"#,
    r#"
   <table>
     <tr>
       <td colspan="50">1</td>
       <td colspan="50">2</td>
       <td colspan="50">3</td>
     </tr>
     <tr>
       <td colspan="100">12</td>
       <td colspan="50">3</td>
     </tr>
     <tr>
       <td colspan="50">1</td>
       <td colspan="100">23</td>
     </tr>
   </table>
"#,
    r#"<p>Hello</p>
    <blockquote>One, two, three</blockquote>
    <p>foo</p>
"#,
    r#"
        <ul>
          <li>Item one</li>
          <li>Item two</li>
          <li>Item three</li>
        </ul>
     "#,
    r#"
        <ol>
          <li>Item one</li>
          <li>Item two</li>
          <li>Item three</li>
        </ol>
     "#,
    r#"
        <ol>
          <li>Item one</li>
          <li>Item two</li>
          <li>Item three</li>
          <li>Item four</li>
          <li>Item five</li>
          <li>Item six</li>
          <li>Item seven</li>
          <li>Item eight</li>
          <li>Item nine</li>
          <li>Item ten</li>
        </ol>
     "#,
    r#"
        <ol start="3">
          <li>Item three</li>
          <li>Item four</li>
        </ol>
     "#,
    r#"
        <ol start="9">
          <li>Item nine</li>
          <li>Item ten</li>
        </ol>
     "#,
    r#"
        <ol start="-1">
          <li>Item minus one</li>
          <li>Item zero</li>
          <li>Item one</li>
        </ol>
     "#,
    r#"
        <p>
           One
           Two
           Three
        </p>
     "#,
    r#"
        <p>
           One
           <span>
               Two
           </span>
           Three
        </p>
     "#,
    r#"
       <table>
         <tr>
            <td>
               One
               <span>
                   Two
               </span>
               Three
            </td>
          </tr>
        </table>
     "#,
    r#"
       <foo>
       <table>
         <tr>
            <td>
               One
               <span><yyy>
                   Two
               </yyy></span>
               Three
            </td>
          </tr>
        </table>
        </foo>
     "#,
    r#"
       <table>
         <tr>
            <td><p>
               One
               <span>
                   Two
               </span>
               Three
            </p></td>
          </tr>
        </table>
     "#,
    r#"
       <pre>foo
bar
wib   asdf;
</pre>
<p>Hello</p>
     "#,
    r#"
       <p>Hello, <a href="http://www.example.com/">world</a></p>"#,
    r#"
       <p>Hello, <a href="http://www.example.com/">world</a>!</p>"#,
    r#"
       <p>Hello, <a href="http://www.example.com/">w</a>orld</p>"#,
    r#"
       <a href="http://www.example.com/">Hello</a>"#,
    r#"<p><a href="dest">http://example.org/blah/</a> one two three"#,
    r#"<table><tr><td colspan="2"><p>Hello, this should be wrapped.</p></table>"#,
    r#"
        <p>This is a bit of text to wrap<p>
        <ul>
          <li>This is a bit of text to wrap too</li>
          </li>
        </ul>"#,
    r#"
        <p>plain para at the full screen width</p>
        <ul>
          <li>bullet point uses same width so its margin is 2 chars further right

          <ul><li>nested bullets in turn move 2 chars right each time
             <ul><li>result: you never get text squashed too narrow</li></ul>
          </li></ul>
        </li></ul>"#,
    r#"Hello <em>there</em> boo"#,
    r#"<div>
     <div>Here's a <a href="https://example.com/">link</a>.</div>
     <div><ul>
     <li>Bullet</li>
     <li>Bullet</li>
     <li>Bullet</li>
     </ul></div>
     </div>"#,
    r#"
   <table>
     <tr>
       <td>
          <table><tr><td>1</td><td>2</td><td>3</td></tr></table>
       </td>
       <td>
          <table><tr><td>4</td><td>5</td><td>6</td></tr></table>
       </td>
       <td>
          <table><tr><td>7</td><td>8</td><td>9</td></tr></table>
       </td>
     </tr>
     <tr>
       <td>
          <table><tr><td>1</td><td>2</td><td>3</td></tr></table>
       </td>
       <td>
          <table><tr><td>4</td><td>5</td><td>6</td></tr></table>
       </td>
       <td>
          <table><tr><td>7</td><td>8</td><td>9</td></tr></table>
       </td>
     </tr>
     <tr>
       <td>
          <table><tr><td>1</td><td>2</td><td>3</td></tr></table>
       </td>
       <td>
          <table><tr><td>4</td><td>5</td><td>6</td></tr></table>
       </td>
       <td>
          <table><tr><td>7</td><td>8</td><td>9</td></tr></table>
       </td>
     </tr>
   </table>
"#,
    r#"
   <table>
     <tr>
       <td>
          <table>
             <tr><td>1</td><td>a</td></tr>
             <tr><td>2</td><td>b</td></tr>
          </table>
       </td>
       <td><pre>one
two
three
four
five
</pre>
       </td>
     </tr>
   </table>
"#,
    r#"
   <h1>Hi</h1>
   <p>foo</p>
"#,
    r#"
   <h3>Hi</h3>
   <p>foo</p>
"#,
    r#"<pre>Hello  sp
world</pre>"#,
    r#"
<pre>Hello <span>$</span>sp
<span>Hi</span> <span>$</span><span>foo</span>
<span>Hi</span> <span>foo</span><span>, </span><span>bar</span>
</pre>"#,
    r#"<pre>	t0
x	t1
xx	t2
xxx	t3
xxxx	t4
xxxxx	t5
xxxxxx	t6
xxxxxxx	t7
xxxxxxxx	t8
xxxxxxxxx	t9</pre>"#,
    r#"<pre>	t
x	t
xx	t
xxx	t
xxxx	t
xxxxx	t
xxxxxx	t
xxxxxxx	t
xxxxxxxx	t
xxxxxxxxx	t</pre>"#,
    r#"
   <p>Hi <em>em</em> <strong>strong</strong></p>
"#,
    r#"
   <div>Top</div>
   <div>&nbsp;Indented</div>
   <div>&nbsp;&nbsp;Indented again</div>
"#,
    r#"<html><body><table>
        <tr>
            <td>hi, world</td>
        </tr>
    </table></body></html>"#,
    r#"<html><body><table>
        <tr>
            <td id="bodyCell">hi, world</td>
        </tr>
    </table></body></html>"#,
    r#"<html><body><table>
        <tr id="bodyrow">
            <td>hi, world</td>
        </tr>
    </table></body></html>"#,
    r#"<html><body><table id="bodytable">
        <tr>
            <td>hi, world</td>
        </tr>
    </table></body></html>"#,
    r#"<html><body><table>
      <tbody id="tb">
        <tr>
            <td>hi, world</td>
        </tr>
      </tbody>
    </table></body></html>"#,
    r#"
        <h2>
            <table>
                        <h3>Anything</h3>
            </table>
        </h2>
"#,
    r#"
        <h2>
            <table>
                <h3>Anything</h3>
            </table>
        </h2>
"#,
    r#"<pre>X<span id="i"> </span></pre>"#,
    r#"<a href="foo" id="i">quitelongline</a>"#,
    r#"<dl><dt>Foo</dt><dd>Definition of foo</dd></dl>"#,
    r#"Hi <s>you</s>thee!"#,
    r#"<p style="white-space: pre">testlong</p>"#,
    r#"
   <table>
     <tr>
       <td>1</td>
       <td>2</td>
       <td>3</td>
     </tr>
     <tr><td></td><td></td><td></td></tr>
     <tr>
       <td>4</td>
       <td>5</td>
       <td>6</td>
     </tr>
   </table>
"#,
    r#"
   <table>
     <tr>
       <td></td>
       <td>1</td>
       <td></td>
       <td>2</td>
       <td></td>
     </tr>
     <tr>
       <td></td>
       <td>3</td>
       <td></td>
       <td>4</td>
       <td></td>
     </tr>
     <tr>
       <td></td>
       <td>5</td>
       <td></td>
       <td>6</td>
       <td></td>
     </tr>
   </table>
"#,
    r#"
   <table></table>
"#,
    r#"
   <table><tr></tr></table>
"#,
    r#"
   <table><tr><td></td></tr></table>
"#,
    r#"<ul><li><table><tr><td>x</td></tr></table></li></ul>
"#,
    r#"
<html>
<body>
    <table>
        <tr>
            <td>
                <table>
                    <tr>
                        <td>&nbsp;</td>
                        <td>
                            <table>
                                <tr>
                                    <td>Blah blah blah
                                    </td>
                                </tr>
                            </table>
                        </td>
                        <td>&nbsp;</td>
                    </tr>
                </table>
            </td>
        </tr>
    </table>
</body>
"#,
    r#"
<table>
    <tr>
        <td>wid</td>
        <td>kin</td>
        <td>der</td>
    </tr>
</table>
"#,
    r#"<table><td><p>3,266</p>"#,
    r#"<pre>
Test.


End.
</pre>"#,
    r#"
<table>
<tbody>
<tr><td><a href="https://example.com/verylonglinks"><img src="http://www.twitter.com/img/icon_twitter.png" alt="Twitter"></a></td>
    <td><a href="http://www.facebook.com/pages"><img src="http://www.facebook.com/icon_facebook.png" alt="Facebook"></a></td>
        </tr>
        </tbody>
        </table>
"#,
    r#"<h1>Hi</h1>"#,
    r#"<blockquote>Hi</blockquote>"#,
    r#"<ul><li>Hi</li></ul>"#,
    r#"<ol><li>Hi</li></ul>"#,
    r#"Exponential x<sup>y</sup>"#,
    r#"Exponential 2<sup>32</sup>"#,
    r#"<blockquote><h3>Foo</h3></blockquote>"#,
    r#"<blockquote><blockquote>Foo</blockquote></blockquote>"#,
    r#"<ul><li><ul><li>Foo</li></ul></li></ul>"#,
    r#"<ol><li><ol><li>Foo</li></ol></li></ol>"#,
    r#"<blockquote><dl><dt>Foo</dt><dd>Hello</dd></dl></blockquote>"#,
    r#"
  <table>
    <tr>
      <td colspan="9007199254740991">foo</td.
    </tr>
  </table>
"#,
    r#"<div><table><tbody><tr><td><div><table><tbody><tr><td><div><pre>na na na na na na na na na na na na na na na</p></div></td></tr>/<tbody></table></div></td></tr>/<tbody></table></div>"#,
    r#"<p id="my_id">Hi</p>"#,
    r#"<ul id="my_id">
            <li>One</li>
            <li>Two</li>
        </ul>"#,
    r#"
          <style>
              .hide { display: none; }
          </style>
        <p>Hello</p>
        <p class="hide">Ignore</p>
        <p>There</p>"#,
    r#"
        <p>Hello</p>
        <p class="hide">Ignore</p>
        <p>There</p>"#,
    r#"
          <style>
              div { display: none; }
          </style>
        <p>Hello</p>
        <div>Ignore</div>
        <p>There</p>"#,
    r#"
          <style>
              .someclass > * > span > span {
                  display: none;
              }
          </style>
        <p>Hello</p>
        <div class="someclass">Ok
        <p>
         <span>Span1<span>Span2</span></span>
        </p>
        <div>
         <span>Span1<span>Span2</span></span>
        </div>
        </div>
        <p>There</p>"#,
    r#"
          <style>
              .red {
                  color:#FF0000;
              }
          </style>
        <p>Test <a class="red" href="foo">red</a></p>
        "#,
    r#"Test <R>red</R>
"#,
    r#"
          <style>
              .red {
                  color:#FF0000;
                  background-color:#00FF00;
              }
          </style>
        <p>Test <span class="red">red</span></p>
        "#,
    r#"Test <g><R>red</R></g>
"#,
    r#"
          <style>
              .red {
                  color:#FF0000;
                  background-color:#00FF00;
              }
          </style>
        <p>Test <span class="red">red</span> and <span style="color: #00ff00">green</span></p>
        "#,
    r#"Test <g><R>red</R></g> and <G>green</G>
"#,
    r#"
          <style>
              .but {
                  background-color:#00FF00;
              }
          </style>
        <p>Test <span class="but">Two words</span> bg</p>
        "#,
    r#"Test <g>Two words</g> bg
"#,
    r#"
          <style>
              .red {
                  color:#FF0000;
              }
          </style>
        <p>Test <blah class="red" href="foo">red</blah></p>
        "#,
    r#"
        <p>Test <font color="red">red</font></p>
        "#,
    r#"
          <style>
              .red {
                  color:#FF0000;
              }
          </style>
        <ul>
          <li class="red">Line one</li>
          <li>Line <span class="red">two</span></li>
        </ul>
        "#,
    r#"* <R>Line one</R>
* Line <R>two</R>
"#,
    r#"
          <style>
              .red {
                  color:#FF0000;
              }
          </style>
        <ol>
          <li class="red">Line one</li>
          <li>Line <span class="red">two</span></li>
        </ul>
        "#,
    r#"1. <R>Line one</R>
2. Line <R>two</R>
"#,
    r#"
          <style>
              .red {
                  color:#FF0000;
              }
          </style>
        <p>Test paragraph with <span class="red">red</span> text</p>
        "#,
    r#"Test
paragraph
with <R>red</R>
text
"#,
    r#"Test paragraph with <R>red</R> text
"#,
    r#"
          <style>
              .red {
                  color:#FF0000 !important;
              }
          </style>
        <p>Test paragraph with <span class="red">red</span> text</p>
        "#,
    r#"<head><style>em { color: white; }</style></head>
            <body>
                Hello *<em>there</em>* boo"#,
    r#"
        <div style="max-height: 0; overflow-y: hidden">This should be hidden</div>
        <p>Hello</p>"#,
    r#"
        <div style="height: 0; overflow: hidden">This should be hidden</div>
        <p>Hello</p>"#,
    r#"<head><style>
        #foo {
            color: #f00;
        }
        p#bar {
            color: #0f0;
        }
        div#baz {
            color: #00f;
        }
        *#qux {
            color: #fff;
        }
        </style></head><body>

        <p id="foo">Foo</p>
        <p id="bar">Bar</p>
        <p id="baz">Baz</p>
        <p id="qux">Qux</p>
        "#,
    r#"<R>Foo</R>

<G>Bar</G>

Baz

<W>Qux</W>
"#,
    r#"<head><style>
        p.d span { /* descendent */
            color: #f00;
        }
        p.c > span { /* child */
            color: #0f0;
        }
        </style></head><body>

        <p class="d">X<span>C</span><dummy><span>D</span></dummy>Y</p>
        <p class="c"><span>C</span><dummy><span>D</span></dummy></p>
        "#,
    r#"X<R>CD</R>Y

<G>C</G>D
"#,
    r#"<head><style>
        tr.r {
            color: #f00;
        }
        </style></head><body>
        <table>
         <tr>
           <td>Row</td><td>One</td>
         </tr>
         <tr class="r">
           <td>Row</td><td>Two</td>
         </tr>
         <tr>
           <td>Row</td><td>Three</td>
         </tr>
        </table>
        "#,
    r#"───┬─────
Row│One  
───┼─────
<R>Row│Two  </R>
<R>───┼─────</R>
Row│Three
───┴─────
"#,
    r#"
        <head><style>
            .doc_red { color: #f00; }
            .doc_red_imp { color: #f00 !important; }
        </style></head>
        <body>
            <p class="doc_red">Doc red</p>
            <p class="agent_green">Agent green</p>
            <p class="user_blue">User blue</p>
            <p class="doc_red agent_green">Doc vs agent</p>
            <p class="agent_green user_blue">Agent vs user</p>
            <p class="user_blue doc_red">User vs doc</p>
            <p class="doc_red agent_green_imp">Doc vs agent!</p>
            <p class="agent_green_imp user_blue">Agent! vs user</p>
            <p class="user_blue_imp doc_red">User! vs doc</p>
            <p class="doc_red_imp agent_green_imp">Doc! vs agent!</p>
            <p class="agent_green_imp user_blue_imp">Agent! vs user!</p>
            <p class="user_blue_imp doc_red_imp">User! vs doc!</p>
        </body>"#,
    r#"<R>Doc red</R>

<G>Agent green</G>

<B>User blue</B>

<R>Doc vs agent</R>

<B>Agent vs user</B>

<R>User vs doc</R>

<G>Doc vs agent!</G>

<G>Agent! vs user</G>

<B>User! vs doc</B>

<G>Doc! vs agent!</G>

<G>Agent! vs user!</G>

<B>User! vs doc!</B>
"#,
    r#"<p class="prewrap">Hi
 a
  b
   x  longword
c  d  e
</p>"#,
    r#"<p class="prewrap">Test wrapping of some normal text in pre-wrap mode</p>"#,
    r#"<p class="prewrap">This  para  has  double  spacing  which  should  survive  except  at  line  breaks</p>"#,
    r#"
          <style>
              li:nth-child(even) {
                  color: #f00;
              }
          </style>
          <body><ul>
              <li>One</li>
              <li>Two</li>
              <li>Three</li>
              <li>Four</li>
              <li>Five</li>
          </ul>"#,
    r#"* One
* <R>Two</R>
* Three
* <R>Four</R>
* Five
"#,
    r#"
          <style>
              li:nth-child(odd) {
                  color: #f00;
              }
          </style>
          <body><ul>
              <li>One</li>
              <li>Two</li>
              <li>Three</li>
              <li>Four</li>
              <li>Five</li>
          </ul>"#,
    r#"* <R>One</R>
* Two
* <R>Three</R>
* Four
* <R>Five</R>
"#,
    r#"
          <style>
              li:nth-child(-n+3) {
                  color: #f00;
              }
          </style>
          <body><ul>
              <li>One</li>
              <li>Two</li>
              <li>Three</li>
              <li>Four</li>
              <li>Five</li>
          </ul>"#,
    r#"* <R>One</R>
* <R>Two</R>
* <R>Three</R>
* Four
* Five
"#,
    r#"
          <style>
              li:nth-child(2) {
                  color: #f00;
              }
          </style>
          <body><ul>
              <li>One</li>
              <li>Two</li>
              <li>Three</li>
              <li>Four</li>
              <li>Five</li>
          </ul>"#,
    r#"* One
* <R>Two</R>
* Three
* Four
* Five
"#,
    r#"
          <style>
              li:nth-child(n+3):nth-child(-n+5) {
                  color: #f00;
              }
          </style>
          <body><ul>
              <li>One</li>
              <li>Two</li>
              <li>Three</li>
              <li>Four</li>
              <li>Five</li>
              <li>Six</li>
              <li>Seven</li>
              <li>Eight</li>
              <li>Nine</li>
              <li>Ten</li>
          </ul>"#,
    r#"* One
* Two
* <R>Three</R>
* <R>Four</R>
* <R>Five</R>
* Six
* Seven
* Eight
* Nine
* Ten
"#,
    r#"
        <style>
          span.bracketed::before {
              content: "[";
          }
          span.bracketed::after {
              content: "]";
          }
        </style>
        <body>
        <p>Hello <span class="bracketed">world</span>!</p>
        </body>"#,
    r#"<p>Hello</p>"#,
    r#"<p>Hello, world!</p>"#,
    r#"<p>Hello, world.  Superlongwordreally</p>"#,
    r#"<p>Hello, world.  This is a long sentence with a
few words, which we want to be wrapped correctly.</p>"#,
    r#"
    <ul>
      <li>Item 1</li>
      <li>Item 2
      <ul>
        <li>SubItem 2.1</li>
        <li>SubItem 2.2
          <ul>
            <li>Sub Item 2.2.1</li>
          </ul>
        </li>
      </ul>
    </ul>"#,
    r#"
    <ol>
      <li>Item 1</li>
      <li>Item 2
      <ol>
        <li>SubItem 2.1</li>
        <li>SubItem 2.2
          <ol>
            <li>Sub Item 2.2.1</li>
          </ol>
        </li>
      </ol>
    </ol>"#,
    r#"<p>Hello</p><div>Div</div>"#,
    r#"<p>Hello</p><div>Div</div><div>Div2</div>"#,
    r#"<p>Hello <img src='foo.jpg' alt='world'></p>"#,
    r#"<p>Hello<br/>World</p>"#,
    r#"<p>Hello<br/><br/>World</p>"#,
    r#"<p>Hello<br/> <br/>World</p>"#,
    r#"<pre>	world</pre>"#,
    r#"<pre>H	world</pre>"#,
    r#"<pre>He	world</pre>"#,
    r#"<pre>Hel	world</pre>"#,
    r#"<pre>Hell	world</pre>"#,
    r#"<pre>Hello	world</pre>"#,
    r#"<pre>Helloo	world</pre>"#,
    r#"<pre>Hellooo	world</pre>"#,
    r#"<pre>Helloooo	world</pre>"#,
    r#"<table><tr><td>hi</td><td>"#,
    r#"</td></tr></table>"#,
    r#"<ul><li><!----></li></ul>"#,
    r#"<pre>Foo<br>Bar</pre>"#,
    r#"<strong>bold</strong>"#,
    r#"<pre>test</pre>"#,
    r#"<pre>testlong</pre>"#,
    r#"<table><tr>
    <td><ol><li></li></ol></td>
    <td><ol><li>
        Aliquam erat volutpat.  Nunc eleifend leo vitae magna.  In id erat non orci commodo lobortis.
    </li>
    <li>
        Aliquam erat volutpat.
    </li>
    <li></li>
    </ol></td>
    <td><ol><li>
        Lorem ipsum dolor sit amet, consectetuer adipiscing elit.  Donec hendrerit tempor tellus.
    </li></ol></td>
</tr>
</table>"#,
    r#"<table>
      <td>နတမစ</td>
      <td>နတမစ</td>
      <td>aaa</td>
</table>"#,
    r#"<table>
<td><ol>
<li>0</li>
<li>1</li>
<li>2</li>
<li>3</li>
<li>4</li>
<li>5</li>
<li>6</li>
<li>7</li>
<li>8</li>
<li>9</li>
<li>10</li>
</ol></td>
</table>"#,
    r#"<table><tr>
    <td><ol><li></li></ol></td>
    <td>
        <ol><li>Aliquam erat volutpat. Lorem ipsum dolor sit amet,</li></ol>
    </td>
    <td>
        <ol><li>Lorem ipsum dolor sit</li></ol>
    </td>
</tr></table>"#,
    r#"
<ul>
  <table>
    <tr></tr>
  </table>
</ul>"#,
    r#"Hello *<W>there</W>* boo
"#,
    r#"Hello *<W>there</W>*
boo
"#,
    r#"Hello
*<W>there</W>* boo
"#,
    r#"Hello
*<W>there</W>*
boo
"#,
    r#"Hello
*<W>there</W>
* boo
"#,
    r#"Hello
*<W>ther</W>
<W>e</W>*
boo
"#,
    r#"Hell
o
*<W>the</W>
<W>re</W>*
boo
"#,
    r#"H
e
l
l
o
*
<W>t</W>
<W>h</W>
<W>e</W>
<W>r</W>
<W>e</W>
*
b
o
o
"#,
];
