//! The check driver: shards run indices over worker processes, attributes
//! worker deaths (stack overflow, allocation failure, stall) to the announced
//! run, minimises and writes replay files, matches known findings, writes
//! evidence.  Exit codes: 0 clean, 1 violation, 2 harness error.

use crate::eval::{evaluate, fingerprint, generate, nontrivial};
use crate::minimize;
use crate::reader::FaultStats;
use crate::scenario::*;
use serde::{Deserialize, Serialize};
use std::collections::{BTreeMap, HashSet};
use std::io::{BufRead, BufReader, Write};
use std::path::{Path, PathBuf};
use std::process::{Child, Command, Stdio};
use std::sync::atomic::{AtomicBool, Ordering};
use std::sync::mpsc;
use std::sync::{Arc, Mutex};
use std::time::{Duration, Instant};

/// Where corpus, known findings, replays and evidence live.  Always /verif
/// for the registered checks; sensitivity experiments redirect it.
pub fn verif_dir() -> PathBuf {
    std::env::var("H2TSIM_VERIF_DIR")
        .map(PathBuf::from)
        .unwrap_or_else(|_| PathBuf::from("/verif"))
}
/// A run in which nothing happens for this long - no scheduler event, no
/// step of the step clock - is stalled.  The step clock catches loops inside
/// html2text deterministically long before; this backstop exists for loops
/// that contain no tick site and for deadlocks.  It is judged inside the
/// executing process by a watchdog thread that looks at the progress
/// counter, not by the wall-clock time between two reports: a run that is
/// merely slow because the machine is overloaded (every baton hand-over is a
/// context switch) keeps counting and is never mistaken for a hang.
const STALL_SECS: u64 = 240;
/// (H2TSIM_STALL_SECS overrides it, for testing the watchdog itself.)
fn stall_secs() -> u64 {
    std::env::var("H2TSIM_STALL_SECS")
        .ok()
        .and_then(|s| s.parse().ok())
        .unwrap_or(STALL_SECS)
}
/// The driver's own wall-clock limit per run is only a last resort.
const HARD_LIMIT_SECS: u64 = 3600;
/// Exit status of a process whose watchdog found it stalled.
const STALL_EXIT: i32 = 4;

static RUN_ACTIVE: std::sync::atomic::AtomicBool = std::sync::atomic::AtomicBool::new(false);
/// CPU time of this process (ms) when the current run started.
static RUN_CPU_START_MS: std::sync::atomic::AtomicU64 = std::sync::atomic::AtomicU64::new(0);

fn process_cpu_ms() -> u64 {
    let mut ts = libc::timespec { tv_sec: 0, tv_nsec: 0 };
    unsafe {
        libc::clock_gettime(libc::CLOCK_PROCESS_CPUTIME_ID, &mut ts);
    }
    ts.tv_sec as u64 * 1000 + ts.tv_nsec as u64 / 1_000_000
}

/// Start the stall watchdog of this (worker or run-scenario) process.
fn spawn_watchdog() {
    use std::sync::atomic::Ordering;
    std::thread::spawn(|| {
        let mut last = crate::sched::PROGRESS.load(Ordering::Relaxed);
        let mut since = Instant::now();
        loop {
            std::thread::sleep(Duration::from_secs(2));
            let now = crate::sched::PROGRESS.load(Ordering::Relaxed);
            if now != last || !RUN_ACTIVE.load(Ordering::Relaxed) {
                last = now;
                since = Instant::now();
            } else if since.elapsed().as_secs() >= stall_secs() {
                eprintln!(
                    "h2tsim: STALL-WATCHDOG: no scheduler event and no step for {} s",
                    stall_secs()
                );
                std::process::exit(STALL_EXIT);
            }
            // A run which does move, but has used this much processor time,
            // is too slow to count as terminating (CPU time, not wall-clock
            // time: the verdict does not depend on how busy the machine is).
            if RUN_ACTIVE.load(Ordering::Relaxed) {
                let used = process_cpu_ms().saturating_sub(RUN_CPU_START_MS.load(Ordering::Relaxed));
                if used >= stall_secs() * 1000 {
                    eprintln!(
                        "h2tsim: STALL-WATCHDOG: the run has used {} s of processor time",
                        used / 1000
                    );
                    std::process::exit(STALL_EXIT);
                }
            }
        }
    });
}

/// `evaluate` with the watchdog armed.
fn evaluate_watched(scen: &Scenario, trace: bool) -> crate::eval::Eval {
    use std::sync::atomic::Ordering;
    crate::sched::PROGRESS.fetch_add(1, Ordering::Relaxed);
    RUN_CPU_START_MS.store(process_cpu_ms(), Ordering::Relaxed);
    RUN_ACTIVE.store(true, Ordering::Relaxed);
    static BUDGET: std::sync::OnceLock<usize> = std::sync::OnceLock::new();
    let budget = *BUDGET.get_or_init(crate::alloc::budget);
    crate::alloc::run_begin(budget);
    let mut ev = evaluate(scen, trace);
    let (peak, calls) = crate::alloc::run_end();
    ev.peak_bytes = peak;
    ev.alloc_calls = calls;
    RUN_ACTIVE.store(false, Ordering::Relaxed);
    ev
}
const SITE_NAMES: &[&str] = &[
    "TreeNode",
    "TableShrink",
    "AddTextChar",
    "TabStop",
    "WsFill",
    "HardWrap",
    "FmtLinksChar",
    "SelectorMatch",
    "CssString",
    "CssSkip",
    "SinkOp",
    "BorderStretch",
    "Step",
    "ProbeTooNarrow",
    "ProbeVertTable",
    "ProbeOverflowWrap",
    "ProbeColspanRemap",
    "ProbeFragAttach",
    "ProbeTextMerge",
    "ProbeReparent",
    "ProbeRemoveFromParent",
    "ProbeAddAttrs",
    "ProbeTemplate",
    "ProbeFosterParent",
    "ProbeInsertChild",
    "ProbeRuleMatched",
    "ProbeDisplayNone",
    "ProbeNthChild",
];

#[derive(Serialize, Deserialize, Default, Clone)]
pub struct Agg {
    pub runs: u64,
    pub nontrivial_runs: u64,
    pub fps: Vec<u64>,
    pub interleavings: Vec<u64>,
    pub deliveries: Vec<u64>,
    pub faults: FaultStats,
    pub ticks_total: u64,
    pub ticks_max: u64,
    pub ticks_max_index: u64,
    pub sites: Vec<u64>,
    pub outcomes: BTreeMap<String, u64>,
    pub classes: BTreeMap<String, u64>,
    pub routes: BTreeMap<String, u64>,
    pub decorators: BTreeMap<String, u64>,
    pub stacks: BTreeMap<String, u64>,
    pub policies: BTreeMap<String, u64>,
    pub ops: u64,
    pub threads_hist: BTreeMap<String, u64>,
    pub compared: u64,
    pub discarded: u64,
    pub events: u64,
    pub sched_points: u64,
    pub faulty_runs: u64,
    pub fault_free_runs: u64,
    pub max_depth: u64,
    pub doc_bytes: u64,
    /// slowest single run (wall clock, diagnostic only: watches the margin to the stall backstop)
    #[serde(default)]
    pub slowest_run_ms: u64,
    #[serde(default)]
    pub slowest_run_index: u64,
    /// largest peak of live heap bytes of a single run (above its starting level)
    #[serde(default)]
    pub mem_peak_max: u64,
    #[serde(default)]
    pub mem_peak_max_index: u64,
    #[serde(default)]
    pub mem_peak_total: u64,
    /// runs by the power of two of their peak (MiB)
    #[serde(default)]
    pub mem_hist: BTreeMap<String, u64>,
    #[serde(default)]
    pub alloc_calls: u64,
    #[serde(default)]
    pub runs_with_variants: u64,
    #[serde(default)]
    pub runs_repeat_checked: u64,
    #[serde(default)]
    pub runs_fresh_reference: u64,
    /// runs executed with environment variables set, emptied or removed
    #[serde(default)]
    pub runs_env_changed: u64,
    /// times the baton was taken from a holder found blocked on a lock of the code under test
    #[serde(default)]
    pub takeovers: u64,
    pub samples: Vec<serde_json::Value>,
}

impl Agg {
    fn merge(&mut self, o: Agg) {
        self.runs += o.runs;
        self.nontrivial_runs += o.nontrivial_runs;
        self.fps.extend(o.fps);
        self.interleavings.extend(o.interleavings);
        self.deliveries.extend(o.deliveries);
        self.faults.add(&o.faults);
        self.ticks_total += o.ticks_total;
        if o.ticks_max > self.ticks_max {
            self.ticks_max = o.ticks_max;
            self.ticks_max_index = o.ticks_max_index;
        }
        if self.sites.len() < o.sites.len() {
            self.sites.resize(o.sites.len(), 0);
        }
        for (i, v) in o.sites.iter().enumerate() {
            self.sites[i] += v;
        }
        for (m, om) in [
            (&mut self.outcomes, o.outcomes),
            (&mut self.classes, o.classes),
            (&mut self.routes, o.routes),
            (&mut self.decorators, o.decorators),
            (&mut self.stacks, o.stacks),
            (&mut self.policies, o.policies),
            (&mut self.threads_hist, o.threads_hist),
        ] {
            for (k, v) in om {
                *m.entry(k).or_insert(0) += v;
            }
        }
        self.ops += o.ops;
        self.compared += o.compared;
        self.discarded += o.discarded;
        self.events += o.events;
        self.sched_points += o.sched_points;
        self.faulty_runs += o.faulty_runs;
        self.fault_free_runs += o.fault_free_runs;
        self.max_depth = self.max_depth.max(o.max_depth);
        self.doc_bytes += o.doc_bytes;
        if o.mem_peak_max > self.mem_peak_max {
            self.mem_peak_max = o.mem_peak_max;
            self.mem_peak_max_index = o.mem_peak_max_index;
        }
        self.mem_peak_total += o.mem_peak_total;
        self.alloc_calls += o.alloc_calls;
        for (k, v) in o.mem_hist {
            *self.mem_hist.entry(k).or_insert(0) += v;
        }
        if o.slowest_run_ms > self.slowest_run_ms {
            self.slowest_run_ms = o.slowest_run_ms;
            self.slowest_run_index = o.slowest_run_index;
        }
        self.runs_with_variants += o.runs_with_variants;
        self.runs_repeat_checked += o.runs_repeat_checked;
        self.runs_fresh_reference += o.runs_fresh_reference;
        self.runs_env_changed += o.runs_env_changed;
        self.takeovers += o.takeovers;
        if self.samples.len() < 4 {
            for s in o.samples {
                if self.samples.len() < 4 {
                    self.samples.push(s);
                }
            }
        }
    }
}

fn bump(m: &mut BTreeMap<String, u64>, k: &str) {
    *m.entry(k.to_string()).or_insert(0) += 1;
}

fn deco_name(d: &Deco) -> &'static str {
    match d {
        Deco::Plain => "plain",
        Deco::PlainNoDecorate => "plain_no_decorate",
        Deco::Rich => "rich",
        Deco::Trivial => "trivial",
        Deco::Custom { .. } => "custom_ascii",
    }
}

fn policy_name(s: &SchedSpec, threads: usize) -> &'static str {
    if threads <= 1 {
        return "single";
    }
    match s {
        SchedSpec::Random { .. } => "random",
        SchedSpec::Pct { .. } => "pct",
        SchedSpec::Sticky { .. } => "sticky",
        SchedSpec::RoundRobin => "round_robin",
        SchedSpec::Explicit { .. } => "explicit",
    }
}

fn sample_of(scen: &Scenario, index: u64, ev: &crate::eval::Eval) -> serde_json::Value {
    let doc = scen.doc.materialise();
    let head: String = String::from_utf8_lossy(&doc[..doc.len().min(160)]).into_owned();
    let ops: Vec<String> = scen
        .threads
        .iter()
        .enumerate()
        .flat_map(|(t, th)| {
            th.ops.iter().map(move |o| {
                let plan = o
                    .plan()
                    .map(|p| {
                        format!(
                            " plan[steps={} cut={:?} err={:?}]",
                            p.steps.len(),
                            p.cut_at,
                            p.err_at.map(|e| e.0)
                        )
                    })
                    .unwrap_or_default();
                format!("t{}:{}{}", t, o.name(), plan)
            })
        })
        .collect();
    serde_json::json!({
        "run_index": index,
        "run_seed": scen.run_seed,
        "class": scen.class,
        "doc_len": doc.len(),
        "doc_head": head,
        "nest_depth": scen.doc.depth(),
        "decorator": deco_name(&scen.config.decorator),
        "threads": scen.threads.len(),
        "stack_kib": scen.threads.iter().map(|t| t.stack_kib).collect::<Vec<_>>(),
        "ops": ops,
        "sched": policy_name(&scen.sched, scen.threads.len()),
        "outcomes": ev.res.records.iter().map(|r| r.outcome.class()).collect::<Vec<_>>(),
        "faults_fired": serde_json::to_value(ev.res.stats).unwrap(),
        "ticks": ev.res.ticks_total,
        "events": ev.res.log.events,
    })
}

fn account(agg: &mut Agg, scen: &Scenario, index: u64, ev: &crate::eval::Eval) {
    let res = &ev.res;
    agg.runs += 1;
    let nt = nontrivial(res, scen);
    if nt {
        agg.nontrivial_runs += 1;
        agg.fps.push(fingerprint(res));
    }
    agg.interleavings.push(res.log.interleave_hash);
    agg.deliveries.push(res.log.delivery_hash);
    agg.faults.add(&res.stats);
    agg.faults.corrupt += scen.corrupt_events as u64;
    agg.ticks_total += res.ticks_total;
    if res.ticks_max > agg.ticks_max {
        agg.ticks_max = res.ticks_max;
        agg.ticks_max_index = index;
    }
    if agg.sites.len() < res.site_counts.len() {
        agg.sites.resize(res.site_counts.len(), 0);
    }
    for (i, v) in res.site_counts.iter().enumerate() {
        agg.sites[i] += v;
    }
    for r in &res.records {
        bump(&mut agg.outcomes, r.outcome.class());
        bump(&mut agg.routes, r.name);
    }
    bump(&mut agg.classes, &scen.class);
    bump(&mut agg.decorators, deco_name(&scen.config.decorator));
    for t in &scen.threads {
        bump(&mut agg.stacks, &format!("{}KiB", t.stack_kib));
    }
    bump(&mut agg.policies, policy_name(&scen.sched, scen.threads.len()));
    bump(&mut agg.threads_hist, &format!("{}", scen.threads.len()));
    agg.ops += res.records.len() as u64;
    agg.compared += ev.compared;
    if ev.discarded {
        agg.discarded += 1;
    }
    agg.events += res.log.events;
    agg.sched_points += res.log.sched_points;
    if res.stats.hard_error > 0 {
        agg.faulty_runs += 1;
    } else {
        agg.fault_free_runs += 1;
    }
    agg.max_depth = agg.max_depth.max(scen.doc.depth() as u64);
    if !scen.variants.is_empty() {
        agg.runs_with_variants += 1;
    }
    if scen.fresh_reference {
        agg.runs_fresh_reference += 1;
    }
    if scen.repeat_check {
        agg.runs_repeat_checked += 1;
    }
    if !scen.env.is_empty() {
        agg.runs_env_changed += 1;
    }
    agg.takeovers += res.log.takeovers;
    if ev.peak_bytes > agg.mem_peak_max {
        agg.mem_peak_max = ev.peak_bytes;
        agg.mem_peak_max_index = index;
    }
    agg.mem_peak_total += ev.peak_bytes;
    agg.alloc_calls += ev.alloc_calls;
    {
        let mib = ev.peak_bytes >> 20;
        let k = if mib == 0 { "<1MiB".to_string() } else { format!("<{}MiB", (mib + 1).next_power_of_two()) };
        bump(&mut agg.mem_hist, &k);
    }
    if agg.samples.len() < 2 && nt {
        agg.samples.push(sample_of(scen, index, ev));
    }
}

fn dedup(v: &mut Vec<u64>) {
    v.sort_unstable();
    v.dedup();
}

// ------------------------------------------------------------------ worker

fn set_limits() {
    // glibc gives every new thread its own malloc arena and grows it a few
    // pages at a time with mprotect; with one fresh OS thread per run that
    // is hundreds of system calls per run.  Use the main arena and grow it
    // in large steps.  (Allocator tuning only; nothing the library sees.)
    unsafe {
        libc::mallopt(libc::M_ARENA_MAX, 1);
        libc::mallopt(libc::M_TOP_PAD, 64 << 20);
        libc::mallopt(libc::M_TRIM_THRESHOLD, 512 << 20);
    }
    // Safety net only: turn a runaway allocation into an attributed abort
    // instead of taking the sandbox down.
    unsafe {
        let lim = libc::rlimit {
            rlim_cur: 10 << 30,
            rlim_max: 10 << 30,
        };
        libc::setrlimit(libc::RLIMIT_AS, &lim);
        let core = libc::rlimit {
            rlim_cur: 0,
            rlim_max: 0,
        };
        libc::setrlimit(libc::RLIMIT_CORE, &core);
    }
}

pub fn cmd_worker(args: &[String]) -> i32 {
    if args.len() < 3 {
        return 2;
    }
    let prop = args[0].clone();
    let seed: u64 = args[1].parse().unwrap();
    let quick = args[2] == "quick";
    set_limits();
    spawn_watchdog();
    let stdin = std::io::stdin();
    let stdout = std::io::stdout();
    let mut out = stdout.lock();
    for line in stdin.lock().lines() {
        let line = match line {
            Ok(l) => l,
            Err(_) => break,
        };
        let parts: Vec<&str> = line.splitn(3, ' ').collect();
        let mut agg = Agg::default();
        match parts[0] {
            "B" => {
                let from: u64 = parts[1].parse().unwrap();
                let to: u64 = parts[2].parse().unwrap();
                for idx in from..to {
                    writeln!(out, "S {}", idx).unwrap();
                    out.flush().unwrap();
                    let scen = generate(&prop, seed, idx, quick);
                    let t0 = Instant::now();
                    let ev = evaluate_watched(&scen, false);
                    let ms = t0.elapsed().as_millis() as u64;
                    if ms > agg.slowest_run_ms {
                        agg.slowest_run_ms = ms;
                        agg.slowest_run_index = idx;
                    }
                    account(&mut agg, &scen, idx, &ev);
                    if let Some(v) = ev.violation {
                        let rf = ReplayFile {
                            violation: v,
                            scenario: scen,
                            note: format!("run index {} of VERIF_SEED {}", idx, seed),
                        };
                        writeln!(out, "V {} {}", idx, serde_json::to_string(&rf).unwrap()).unwrap();
                    }
                }
            }
            "F" => {
                // corpus scenario file; index is its position (negative space: u64::MAX - k)
                let idx: u64 = parts[1].parse().unwrap();
                let path = parts[2];
                writeln!(out, "S {}", idx).unwrap();
                out.flush().unwrap();
                match load_scenario(Path::new(path)) {
                    Ok(scen) => {
                        let ev = evaluate_watched(&scen, false);
                        account(&mut agg, &scen, idx, &ev);
                        if let Some(v) = ev.violation {
                            let rf = ReplayFile {
                                violation: v,
                                scenario: scen,
                                note: format!("corpus file {}", path),
                            };
                            writeln!(out, "V {} {}", idx, serde_json::to_string(&rf).unwrap()).unwrap();
                        }
                    }
                    Err(e) => {
                        writeln!(out, "H bad corpus file {}: {}", path, e).unwrap();
                    }
                }
            }
            "Q" => break,
            _ => {}
        }
        dedup(&mut agg.fps);
        dedup(&mut agg.interleavings);
        dedup(&mut agg.deliveries);
        writeln!(out, "A {}", serde_json::to_string(&agg).unwrap()).unwrap();
        writeln!(out, "E").unwrap();
        out.flush().unwrap();
    }
    0
}

pub fn load_scenario(path: &Path) -> Result<Scenario, String> {
    let text = std::fs::read_to_string(path).map_err(|e| e.to_string())?;
    if let Ok(rf) = serde_json::from_str::<ReplayFile>(&text) {
        return Ok(rf.scenario);
    }
    serde_json::from_str::<Scenario>(&text).map_err(|e| e.to_string())
}

pub fn load_replay(path: &Path) -> Result<ReplayFile, String> {
    let text = std::fs::read_to_string(path).map_err(|e| e.to_string())?;
    serde_json::from_str::<ReplayFile>(&text).map_err(|e| e.to_string())
}

// ------------------------------------------------------------------ isolated execution

pub enum Iso {
    Done(Option<Violation>),
    /// (class: stack_overflow | oom | capacity_overflow | other, description)
    Abort(String, String),
    Hang,
    HarnessError(String),
}

fn self_exe() -> PathBuf {
    // /proc/self/exe names the running image even if the file on disk has been
    // replaced by a rebuild in the meantime (current_exe() would then return a
    // path ending in " (deleted)").
    let p = PathBuf::from("/proc/self/exe");
    if p.exists() {
        p
    } else {
        std::env::current_exe().expect("current_exe")
    }
}

pub fn scratch_dir() -> PathBuf {
    let d = std::env::temp_dir().join(format!("h2tsim-{}", std::process::id()));
    let _ = std::fs::create_dir_all(&d);
    d
}

pub fn remove_scratch() {
    let d = std::env::temp_dir().join(format!("h2tsim-{}", std::process::id()));
    let _ = std::fs::remove_dir_all(d);
}

fn describe_status(st: &std::process::ExitStatus) -> String {
    use std::os::unix::process::ExitStatusExt;
    match st.signal() {
        Some(11) => "signal 11 (SIGSEGV: stack overflow)".into(),
        Some(6) => "signal 6 (SIGABRT: abort)".into(),
        Some(s) => format!("signal {}", s),
        None => format!("exit status {:?}", st.code()),
    }
}

/// Run a scenario in a fresh child process so that a stack overflow or an
/// abort kills the child, not us.
pub fn run_isolated(scen: &Scenario, timeout: Duration) -> Iso {
    static COUNTER: std::sync::atomic::AtomicU64 = std::sync::atomic::AtomicU64::new(0);
    let n = COUNTER.fetch_add(1, Ordering::Relaxed);
    let path = scratch_dir().join(format!("iso-{}.json", n));
    if let Err(e) = std::fs::write(&path, serde_json::to_string(scen).unwrap()) {
        return Iso::HarnessError(format!("cannot write scratch scenario: {}", e));
    }
    let r = run_isolated_file(&path, timeout);
    let _ = std::fs::remove_file(&path);
    r
}

pub fn run_isolated_file(path: &Path, timeout: Duration) -> Iso {
    let mut child = match Command::new(self_exe())
        .arg("run-scenario")
        .arg(path)
        .stdin(Stdio::null())
        .stdout(Stdio::piped())
        .stderr(Stdio::piped())
        .spawn()
    {
        Ok(c) => c,
        Err(e) => return Iso::HarnessError(format!("spawn failed: {}", e)),
    };
    let stdout = child.stdout.take().unwrap();
    let errtail = spawn_tail_reader(child.stderr.take().unwrap());
    let (tx, rx) = mpsc::channel();
    std::thread::spawn(move || {
        let mut s = String::new();
        let _ = std::io::Read::read_to_string(&mut BufReader::new(stdout), &mut s);
        let _ = tx.send(s);
    });
    match rx.recv_timeout(timeout) {
        Ok(output) => {
            let st = child.wait().unwrap();
            for line in output.lines() {
                if let Some(rest) = line.strip_prefix("R ") {
                    return match serde_json::from_str::<Option<Violation>>(rest) {
                        Ok(v) => Iso::Done(v),
                        Err(e) => Iso::HarnessError(format!("bad verdict line: {}", e)),
                    };
                }
            }
            if st.code() == Some(STALL_EXIT) {
                Iso::Hang
            } else if st.success() || st.code() == Some(2) {
                Iso::HarnessError(format!("child gave no verdict ({})", describe_status(&st)))
            } else {
                let tail = final_tail(&errtail);
                let (class, how) = classify_death(&describe_status(&st), &tail);
                Iso::Abort(class.to_string(), how)
            }
        }
        Err(_) => {
            let _ = child.kill();
            let _ = child.wait();
            Iso::Hang
        }
    }
}

// ------------------------------------------------------------------ fresh-process reference

/// Environment variables a reference process may see changed, removed or emptied.
const REF_ENV: &[(&str, &str)] = &[
    ("NO_COLOR", "1"),
    ("CLICOLOR", "0"),
    ("CLICOLOR_FORCE", "1"),
    ("TERM", "dumb"),
    ("COLORTERM", "truecolor"),
    ("COLUMNS", "7"),
    ("LINES", "3"),
    ("LANG", "tr_TR.UTF-8"),
    ("LC_ALL", "ja_JP.eucJP"),
    ("LC_CTYPE", "C"),
    ("TZ", "Pacific/Kiritimati"),
    ("HOME", "/nonexistent"),
    ("TMPDIR", "/nonexistent"),
    ("RUST_LOG", "trace"),
    ("RUST_MIN_STACK", "65536"),
    ("HTML2TEXT_WIDTH", "3"),
    ("WIDTH", "3"),
    ("USER", "nobody"),
    ("HOSTNAME", "elsewhere"),
    ("SHELL", "/bin/false"),
];

#[derive(Serialize, Deserialize)]
struct RefRequest {
    scenario: Scenario,
    /// (variant, delivered length, width)
    keys: Vec<(usize, usize, usize)>,
}

/// `h2tsim refserve`: read one request (a JSON line) from stdin, compute the
/// one-shot references it asks for in this pristine process, print them.
pub fn cmd_refserve() -> i32 {
    set_limits();
    let mut line = String::new();
    if std::io::stdin().lock().read_line(&mut line).is_err() {
        return 2;
    }
    let req: RefRequest = match serde_json::from_str(&line) {
        Ok(r) => r,
        Err(e) => {
            eprintln!("h2tsim refserve: bad request: {}", e);
            return 2;
        }
    };
    let nvar = req.scenario.num_variants();
    let docs: Vec<Vec<u8>> = (0..nvar).map(|v| req.scenario.variant_doc(v).materialise()).collect();
    let specs: Vec<ConfigSpec> = (0..nvar).map(|v| req.scenario.variant_config(v)).collect();
    let mut out: Vec<(crate::exec::Outcome, crate::exec::Outcome)> = Vec::new();
    for (var, limit, w) in req.keys {
        let var = var.min(nvar - 1);
        out.push(crate::exec::reference(&specs[var], &docs[var], limit, w, req.scenario.fuel));
    }
    println!("{}", serde_json::to_string(&out).unwrap());
    0
}

/// The references for `keys`, computed by a fresh process; None if that
/// could not be done (the caller then computes them in-process).
pub fn fresh_references(
    scen: &Scenario,
    keys: &[(usize, usize, usize)],
) -> Option<Vec<(crate::exec::Outcome, crate::exec::Outcome)>> {
    let req = RefRequest {
        scenario: scen.clone(),
        keys: keys.to_vec(),
    };
    let mut text = serde_json::to_string(&req).ok()?;
    text.push('\n');
    // The reference process also lives in a *different environment*: the
    // rendering is a function of bytes, configuration and width, so terminal,
    // locale, colour and size variables, the time zone and the working
    // directory must not matter.  Which ones are changed is a function of
    // the request (so of the run), not of chance.
    let h = crate::prng::fnv(text.as_bytes());
    let mut cmd = Command::new(self_exe());
    cmd.arg("refserve").stdin(Stdio::piped()).stdout(Stdio::piped()).stderr(Stdio::null());
    for (i, (k, v)) in REF_ENV.iter().enumerate() {
        match (h >> (2 * i)) & 3 {
            0 => {
                cmd.env(k, v);
            }
            1 => {
                cmd.env_remove(k);
            }
            2 => {
                cmd.env(k, "");
            }
            _ => {}
        }
    }
    if h >> 62 & 1 == 1 {
        cmd.current_dir("/");
    }
    let mut child = cmd.spawn().ok()?;
    {
        let mut stdin = child.stdin.take()?;
        stdin.write_all(text.as_bytes()).ok()?;
    }
    let mut s = String::new();
    std::io::Read::read_to_string(&mut child.stdout.take()?, &mut s).ok()?;
    let _ = child.wait();
    let v: Vec<(crate::exec::Outcome, crate::exec::Outcome)> = serde_json::from_str(s.trim()).ok()?;
    if v.len() == keys.len() {
        Some(v)
    } else {
        None
    }
}

pub fn cmd_run_scenario(args: &[String]) -> i32 {
    if args.is_empty() {
        return 2;
    }
    set_limits();
    let trace = args.iter().any(|a| a == "--trace");
    let scen = match load_scenario(Path::new(&args[0])) {
        Ok(s) => s,
        Err(e) => {
            eprintln!("h2tsim: cannot load {}: {}", args[0], e);
            return 2;
        }
    };
    spawn_watchdog();
    let ev = evaluate_watched(&scen, trace);
    if let Some(t) = &ev.res.log.trace {
        for l in t {
            println!("T {}", l);
        }
    }
    for r in &ev.res.records {
        println!(
            "O t{} #{} {} w={:?} limit={:?} -> {} len={} wall_us={}",
            r.thread,
            r.index,
            r.name,
            r.width,
            r.limit,
            r.outcome.class(),
            r.text_len,
            r.wall_us
        );
    }
    println!(
        "L events={} log_hash={:016x} interleave={:016x} ticks={} choices={:?}",
        ev.res.log.events, ev.res.log.log_hash, ev.res.log.interleave_hash, ev.res.ticks_total, ev.res.log.choices
    );
    let sites: Vec<String> = SITE_NAMES
        .iter()
        .enumerate()
        .filter(|(i, _)| ev.res.site_counts.get(*i).copied().unwrap_or(0) > 0)
        .map(|(i, n)| format!("{}={}", n, ev.res.site_counts[i]))
        .collect();
    println!("C {}", sites.join(" "));
    println!("R {}", serde_json::to_string(&ev.violation).unwrap());
    0
}

/// Turn an isolated result into the violation it represents (if any).
pub fn iso_violation(prop: &str, iso: &Iso, scen: &Scenario) -> Option<Violation> {
    match iso {
        Iso::Done(v) => v.clone(),
        Iso::Abort(class, how) => Some(Violation {
            property: prop.to_string(),
            kind: "abort".into(),
            signature: format!("abort:{}", class),
            detail: format!(
                "process died with {} while executing the scenario (class {}, nesting depth {}, stack {:?} KiB)",
                how,
                scen.class,
                scen.doc.depth(),
                scen.threads.iter().map(|t| t.stack_kib).collect::<Vec<_>>()
            ),
        }),
        Iso::Hang => Some(Violation {
            property: prop.to_string(),
            kind: "hang".into(),
            signature: "hang".into(),
            detail: format!("stalled: no scheduler event and no step for {} s, or {} s of processor time used (class {})", STALL_SECS, STALL_SECS, scen.class),
        }),
        Iso::HarnessError(_) => None,
    }
}

// ------------------------------------------------------------------ known findings

#[derive(Deserialize, Clone, Debug, Default)]
pub struct Predicate {
    #[serde(default)]
    pub op: Option<String>,
    #[serde(default)]
    pub min_depth: Option<u32>,
    #[serde(default)]
    pub max_stack_kib: Option<u32>,
    #[serde(default)]
    pub doc_contains: Option<String>,
    #[serde(default)]
    pub css_contains: Option<String>,
    #[serde(default)]
    pub min_wrap_width: Option<usize>,
    #[serde(default)]
    pub detail_contains: Option<String>,
}

#[derive(Deserialize, Clone, Debug)]
pub struct KnownEntry {
    pub property: String,
    /// violation signature must start with this
    pub signature: String,
    #[serde(default)]
    pub predicate: Predicate,
    pub what: String,
}

#[derive(Deserialize, Clone, Debug, Default)]
pub struct KnownFile {
    #[serde(default)]
    pub known: Vec<KnownEntry>,
    #[serde(default)]
    pub fixed: Vec<serde_json::Value>,
}

pub fn load_known() -> KnownFile {
    let p = verif_dir().join("known_findings.json");
    match std::fs::read_to_string(&p) {
        Ok(t) => serde_json::from_str(&t).unwrap_or_else(|e| {
            eprintln!("h2tsim: cannot parse {}: {}", p.display(), e);
            std::process::exit(2)
        }),
        Err(_) => KnownFile::default(),
    }
}

pub fn matches_known<'a>(k: &'a KnownFile, v: &Violation, scen: &Scenario) -> Option<&'a KnownEntry> {
    k.known.iter().find(|e| {
        if e.property != v.property || !v.signature.starts_with(&e.signature) {
            return false;
        }
        let p = &e.predicate;
        if let Some(op) = &p.op {
            if !scen.threads.iter().any(|t| t.ops.iter().any(|o| o.name() == op)) {
                return false;
            }
        }
        if let Some(d) = p.min_depth {
            if scen.doc.depth() < d {
                return false;
            }
        }
        if let Some(s) = p.max_stack_kib {
            if !scen.threads.iter().any(|t| t.stack_kib <= s) {
                return false;
            }
        }
        if let Some(needle) = &p.doc_contains {
            let doc = scen.doc.materialise();
            if !String::from_utf8_lossy(&doc).contains(needle.as_str()) {
                return false;
            }
        }
        if let Some(needle) = &p.css_contains {
            let doc = scen.doc.materialise();
            let in_cfg = scen.config.css.iter().any(|c| c.text.contains(needle.as_str()));
            let in_doc = scen.config.use_doc_css && String::from_utf8_lossy(&doc).contains(needle.as_str());
            if !in_cfg && !in_doc {
                return false;
            }
        }
        if let Some(m) = p.min_wrap_width {
            if scen.config.min_wrap_width != Some(m) {
                return false;
            }
        }
        if let Some(d) = &p.detail_contains {
            if !v.detail.contains(d.as_str()) {
                return false;
            }
        }
        true
    })
}

// ------------------------------------------------------------------ check driver

struct Found {
    index: u64,
    replay: ReplayFile,
}

enum Work {
    Batch(u64, u64),
    File(u64, PathBuf),
}

struct Managed {
    child: Child,
    stdin: std::process::ChildStdin,
    rx: mpsc::Receiver<Option<String>>,
    /// tail of the worker's stderr (the Rust runtime says there why it aborts)
    errtail: Arc<Mutex<String>>,
}

/// Why a process died, from its exit status and what it last wrote to stderr.
pub fn classify_death(status_desc: &str, errtail: &str) -> (&'static str, String) {
    if errtail.contains("SIM-DEADLOCK") {
        ("deadlock", format!("{}: every simulated caller thread is blocked on a lock of the code under test (deadlock)", status_desc))
    } else if errtail.contains("has overflowed its stack") {
        ("stack_overflow", format!("{}: stack overflow", status_desc))
    } else if errtail.contains("memory allocation of") {
        let line = errtail
            .lines()
            .rev()
            .find(|l| l.contains("memory allocation of"))
            .unwrap_or("");
        let budget = errtail.lines().rev().find(|l| l.contains("MEMORY-BUDGET")).unwrap_or("");
        if budget.is_empty() {
            ("oom", format!("{}: {} (address-space limit reached)", status_desc, line.trim()))
        } else {
            ("oom", format!("{}: {} ({})", status_desc, line.trim(), budget.trim().trim_start_matches("h2tsim: ")))
        }
    } else if errtail.contains("capacity overflow") {
        ("capacity_overflow", format!("{}: capacity overflow", status_desc))
    } else {
        let last = errtail.lines().rev().find(|l| !l.trim().is_empty()).unwrap_or("");
        ("other", format!("{}: {}", status_desc, last.trim()))
    }
}

/// Wait (briefly) until the stderr reader has seen end-of-file, then return the tail.
fn final_tail(tail: &Arc<Mutex<String>>) -> String {
    for _ in 0..200 {
        let t = tail.lock().unwrap();
        if t.ends_with('\u{4}') {
            return t.trim_end_matches('\u{4}').to_string();
        }
        drop(t);
        std::thread::sleep(Duration::from_millis(10));
    }
    tail.lock().unwrap().clone()
}

fn spawn_tail_reader(stderr: std::process::ChildStderr) -> Arc<Mutex<String>> {
    let tail = Arc::new(Mutex::new(String::new()));
    let t2 = tail.clone();
    std::thread::spawn(move || {
        let r = BufReader::new(stderr);
        for line in r.lines().map_while(|l| l.ok()) {
            let mut t = t2.lock().unwrap();
            t.push_str(&line);
            t.push('\n');
            if t.len() > 8192 {
                let cut = t.len() - 4096;
                let mut cut2 = cut;
                while !t.is_char_boundary(cut2) {
                    cut2 += 1;
                }
                *t = t[cut2..].to_string();
            }
        }
        // end-of-file marker for final_tail()
        t2.lock().unwrap().push('\u{4}');
    });
    tail
}

fn spawn_worker(prop: &str, seed: u64, tier: &str) -> Managed {
    let mut child = Command::new(self_exe())
        .arg("worker")
        .arg(prop)
        .arg(seed.to_string())
        .arg(tier)
        .stdin(Stdio::piped())
        .stdout(Stdio::piped())
        .stderr(Stdio::piped())
        .spawn()
        .expect("spawn worker");
    let stdin = child.stdin.take().unwrap();
    let stdout = child.stdout.take().unwrap();
    let errtail = spawn_tail_reader(child.stderr.take().unwrap());
    let (tx, rx) = mpsc::channel();
    std::thread::spawn(move || {
        let r = BufReader::new(stdout);
        for line in r.lines() {
            match line {
                Ok(l) => {
                    if tx.send(Some(l)).is_err() {
                        return;
                    }
                }
                Err(_) => break,
            }
        }
        let _ = tx.send(None);
    });
    Managed {
        child,
        stdin,
        rx,
        errtail,
    }
}

struct Shared {
    queue: Mutex<std::collections::VecDeque<Work>>,
    agg: Mutex<Agg>,
    found: Mutex<Vec<Found>>,
    harness_errors: Mutex<Vec<String>>,
    stop: AtomicBool,
    aborts: Mutex<u64>,
}

fn manager(prop: String, seed: u64, tier: String, quick: bool, sh: Arc<Shared>) {
    let mut w = spawn_worker(&prop, seed, &tier);
    loop {
        if sh.stop.load(Ordering::Relaxed) {
            break;
        }
        let work = match sh.queue.lock().unwrap().pop_front() {
            Some(w) => w,
            None => break,
        };
        // A batch may need several attempts if the worker dies in the middle.
        let mut pending = Some(work);
        while let Some(work) = pending.take() {
            let cmd = match &work {
                Work::Batch(a, b) => format!("B {} {}\n", a, b),
                Work::File(i, p) => format!("F {} {}\n", i, p.display()),
            };
            if w.stdin.write_all(cmd.as_bytes()).and_then(|_| w.stdin.flush()).is_err() {
                sh.harness_errors
                    .lock()
                    .unwrap()
                    .push("cannot write to worker".into());
                return;
            }
            let mut last_started: Option<u64> = None;
            let mut finished = false;
            let mut died: Option<&'static str> = None;
            loop {
                match w.rx.recv_timeout(Duration::from_secs(HARD_LIMIT_SECS)) {
                    Ok(Some(line)) => {
                        if let Some(rest) = line.strip_prefix("S ") {
                            last_started = rest.parse().ok();
                        } else if let Some(rest) = line.strip_prefix("V ") {
                            let mut it = rest.splitn(2, ' ');
                            let idx: u64 = it.next().unwrap().parse().unwrap_or(0);
                            match serde_json::from_str::<ReplayFile>(it.next().unwrap_or("")) {
                                Ok(rf) => sh.found.lock().unwrap().push(Found { index: idx, replay: rf }),
                                Err(e) => sh
                                    .harness_errors
                                    .lock()
                                    .unwrap()
                                    .push(format!("bad V line: {}", e)),
                            }
                        } else if let Some(rest) = line.strip_prefix("A ") {
                            match serde_json::from_str::<Agg>(rest) {
                                Ok(a) => sh.agg.lock().unwrap().merge(a),
                                Err(e) => sh
                                    .harness_errors
                                    .lock()
                                    .unwrap()
                                    .push(format!("bad A line: {}", e)),
                            }
                        } else if let Some(rest) = line.strip_prefix("H ") {
                            sh.harness_errors.lock().unwrap().push(rest.to_string());
                        } else if line == "E" {
                            finished = true;
                            break;
                        }
                    }
                    Ok(None) => {
                        died = Some("died");
                        break;
                    }
                    Err(_) => {
                        let _ = w.child.kill();
                        died = Some("stalled");
                        break;
                    }
                }
            }
            if finished {
                continue;
            }
            // The worker died or stalled: attribute it to the announced run.
            let status = w.child.wait().ok();
            if status.as_ref().and_then(|s| s.code()) == Some(STALL_EXIT) {
                died = Some("stalled");
            }
            let tail = final_tail(&w.errtail);
            let (death_class, how) = match (died, &status) {
                (Some("stalled"), _) => ("stall", "stall".to_string()),
                (_, Some(st)) => classify_death(&describe_status(st), &tail),
                _ => ("other", "unknown".to_string()),
            };
            *sh.aborts.lock().unwrap() += 1;
            match last_started {
                None => {
                    sh.harness_errors
                        .lock()
                        .unwrap()
                        .push(format!("worker {} before announcing a run ({})", died.unwrap_or("died"), how));
                    return;
                }
                Some(idx) => {
                    let scen = match &work {
                        Work::Batch(..) => Some(generate(&prop, seed, idx, quick)),
                        Work::File(_, p) => load_scenario(p).ok(),
                    };
                    if let Some(scen) = scen {
                        let kind = if died == Some("stalled") { "hang" } else { "abort" };
                        let signature = if kind == "hang" {
                            "hang".to_string()
                        } else {
                            format!("abort:{}", death_class)
                        };
                        let v = Violation {
                            property: prop.clone(),
                            kind: kind.into(),
                            signature,
                            detail: format!(
                                "worker process ended with {} while executing run index {} (class {}, nesting depth {}, stack {:?} KiB)",
                                how,
                                idx,
                                scen.class,
                                scen.doc.depth(),
                                scen.threads.iter().map(|t| t.stack_kib).collect::<Vec<_>>()
                            ),
                        };
                        sh.found.lock().unwrap().push(Found {
                            index: idx,
                            replay: ReplayFile {
                                violation: v,
                                scenario: scen,
                                note: format!("run index {} of VERIF_SEED {}", idx, seed),
                            },
                        });
                    }
                    w = spawn_worker(&prop, seed, &tier);
                    if let Work::Batch(_, b) = work {
                        if idx + 1 < b {
                            pending = Some(Work::Batch(idx + 1, b));
                        }
                    }
                }
            }
        }
    }
    let _ = w.stdin.write_all(b"Q\n");
    let _ = w.stdin.flush();
    drop(w.stdin);
    let _ = w.child.wait();
}

fn arg_value(args: &[String], name: &str) -> Option<String> {
    args.iter()
        .position(|a| a == name)
        .and_then(|i| args.get(i + 1))
        .cloned()
}

struct Tier {
    runs: u64,
    batch: u64,
    max_wall: u64,
    minimise_budget: u64,
}

fn tier_params(prop: &str, tier: &str) -> Tier {
    match (prop, tier) {
        ("C01", "quick") => Tier {
            runs: 60_000,
            batch: 250,
            max_wall: 300,
            minimise_budget: 40,
        },
        ("C01", _) => Tier {
            runs: 3_000_000,
            batch: 500,
            max_wall: 2700,
            minimise_budget: 120,
        },
        ("C10", "quick") => Tier {
            runs: 30_000,
            batch: 200,
            max_wall: 300,
            minimise_budget: 40,
        },
        _ => Tier {
            runs: 1_500_000,
            batch: 400,
            max_wall: 2700,
            minimise_budget: 120,
        },
    }
}

pub fn cmd_check(args: &[String]) -> i32 {
    if args.len() < 2 {
        eprintln!("usage: h2tsim check <C01|C10> <quick|thorough> [--seed N] [--runs N] [--workers N] [--max-wall SECS]");
        return 2;
    }
    let prop = args[0].clone();
    let tier = args[1].clone();
    if !(prop == "C01" || prop == "C10") || !(tier == "quick" || tier == "thorough") {
        eprintln!("h2tsim: unknown property or tier");
        return 2;
    }
    let quick = tier == "quick";
    let seed: u64 = arg_value(args, "--seed")
        .or_else(|| std::env::var("VERIF_SEED").ok())
        .and_then(|s| s.parse().ok())
        .unwrap_or(1);
    let mut tp = tier_params(&prop, &tier);
    if let Some(r) = arg_value(args, "--runs").and_then(|s| s.parse().ok()) {
        tp.runs = r;
    }
    if let Some(r) = arg_value(args, "--max-wall").and_then(|s| s.parse().ok()) {
        tp.max_wall = r;
    }
    let workers: usize = arg_value(args, "--workers")
        .and_then(|s| s.parse().ok())
        .unwrap_or_else(|| std::thread::available_parallelism().map(|n| n.get()).unwrap_or(4).min(16));
    let start = Instant::now();
    println!("h2tsim check property={} tier={} VERIF_SEED={} runs={} workers={}", prop, tier, seed, tp.runs, workers);

    // --- work list: corpus first, then the seeded batch
    let mut queue = std::collections::VecDeque::new();
    let corpus_dir = verif_dir().join("corpus").join(&prop);
    let mut corpus_files: Vec<PathBuf> = std::fs::read_dir(&corpus_dir)
        .map(|rd| {
            rd.filter_map(|e| e.ok())
                .map(|e| e.path())
                .filter(|p| p.extension().map(|x| x == "json").unwrap_or(false))
                .collect()
        })
        .unwrap_or_default();
    corpus_files.sort();
    for (i, p) in corpus_files.iter().enumerate() {
        queue.push_back(Work::File(u64::MAX - i as u64, p.clone()));
    }
    let mut a = 0;
    while a < tp.runs {
        let b = (a + tp.batch).min(tp.runs);
        queue.push_back(Work::Batch(a, b));
        a = b;
    }
    let sh = Arc::new(Shared {
        queue: Mutex::new(queue),
        agg: Mutex::new(Agg::default()),
        found: Mutex::new(Vec::new()),
        harness_errors: Mutex::new(Vec::new()),
        stop: AtomicBool::new(false),
        aborts: Mutex::new(0),
    });
    let mut handles = Vec::new();
    for _ in 0..workers {
        let sh2 = sh.clone();
        let (p, t) = (prop.clone(), tier.clone());
        handles.push(std::thread::spawn(move || manager(p, seed, t, quick, sh2)));
    }
    // wall-clock cap: can only stop early, never fail
    {
        let sh2 = sh.clone();
        let max_wall = tp.max_wall;
        std::thread::spawn(move || loop {
            std::thread::sleep(Duration::from_millis(500));
            if start.elapsed().as_secs() >= max_wall {
                sh2.stop.store(true, Ordering::Relaxed);
                break;
            }
            {
                // Enough has been found.  A stalled run costs its worker the
                // whole stall backstop (240 s), so two of those are enough:
                // a tree on which many runs hang must not keep the check
                // busy for hours.
                let found = sh2.found.lock().unwrap();
                let hangs = found.iter().filter(|f| f.replay.violation.kind == "hang").count();
                if found.len() > 40 || hangs >= 2 {
                    sh2.stop.store(true, Ordering::Relaxed);
                    break;
                }
            }
        });
    }
    for h in handles {
        let _ = h.join();
    }
    let stopped_early = !sh.queue.lock().unwrap().is_empty();
    let explore_secs = start.elapsed().as_secs_f64();

    let herr = sh.harness_errors.lock().unwrap().clone();
    if !herr.is_empty() {
        for e in &herr {
            eprintln!("h2tsim: harness error: {}", e);
        }
        remove_scratch();
        return 2;
    }

    // --- violations: dedup by signature, minimise, verify replay, classify
    let known = load_known();
    let mut found = std::mem::take(&mut *sh.found.lock().unwrap());
    found.sort_by_key(|f| f.index);
    let mut by_sig: Vec<(String, Vec<Found>)> = Vec::new();
    for f in found {
        // corpus entries are identified by file as well, so that each reports separately
        let key = if f.index > u64::MAX / 2 {
            format!("{}|{}", f.replay.violation.signature, f.replay.note)
        } else {
            f.replay.violation.signature.clone()
        };
        match by_sig.iter_mut().find(|(s, _)| *s == key) {
            Some((_, v)) => v.push(f),
            None => by_sig.push((key, vec![f])),
        }
    }
    let mut violations_reported = 0u64;
    let mut known_hits: Vec<String> = Vec::new();
    let mut report_lines: Vec<String> = Vec::new();
    let replay_dir = verif_dir().join("replays");
    let _ = std::fs::create_dir_all(&replay_dir);
    let total_sigs = by_sig.len();
    for (n, (_sig, group)) in by_sig.into_iter().enumerate() {
        // Known findings are matched per occurrence: a different violation
        // with the same signature must still be reported.
        let mut unknown: Vec<Found> = Vec::new();
        let mut group_known: Option<String> = None;
        for f in group {
            if let Some(k) = matches_known(&known, &f.replay.violation, &f.replay.scenario) {
                group_known = Some(format!("property={} {} [{}]", k.property, k.what, f.replay.violation.signature));
            } else {
                unknown.push(f);
            }
        }
        if let Some(k) = group_known {
            if !known_hits.contains(&k) {
                known_hits.push(k);
            }
        }
        let Some(first) = unknown.into_iter().next() else {
            continue;
        };
        let budget = if n < 4 { tp.minimise_budget } else { 0 };
        let (final_rf, min_note) = finalise_violation(first.replay, budget);
        // the minimised scenario may have become a known finding's scenario
        if let Some(k) = matches_known(&known, &final_rf.violation, &final_rf.scenario) {
            let line = format!("property={} {} [{}]", k.property, k.what, final_rf.violation.signature);
            if !known_hits.contains(&line) {
                known_hits.push(line);
            }
            continue;
        }
        let name = format!(
            "{}-{}-{:016x}.json",
            prop,
            final_rf.violation.kind,
            crate::prng::fnv(final_rf.violation.signature.as_bytes()) ^ first.index
        );
        let path = replay_dir.join(name);
        let mut rf = final_rf;
        rf.note = format!("{}; {}", rf.note, min_note);
        std::fs::write(&path, serde_json::to_string_pretty(&rf).unwrap()).expect("write replay");
        violations_reported += 1;
        report_lines.push(format!(
            "VIOLATION property={} replay={}\n  kind={} signature={}\n  {}\n  ({} of {} distinct signatures; {})",
            prop,
            path.display(),
            rf.violation.kind,
            rf.violation.signature,
            rf.violation.detail,
            n + 1,
            total_sigs,
            min_note
        ));
    }

    // --- evidence
    let agg = std::mem::take(&mut *sh.agg.lock().unwrap());
    let wall = start.elapsed().as_secs_f64();
    write_evidence(&prop, &tier, seed, &tp, agg, explore_secs, wall, stopped_early, violations_reported, &known_hits, *sh.aborts.lock().unwrap(), corpus_files.len(), workers);

    for k in &known_hits {
        println!("KNOWN-FINDING: {}", k);
    }
    for l in &report_lines {
        println!("{}", l);
    }
    remove_scratch();
    if violations_reported > 0 {
        1
    } else {
        println!("OK property={} tier={} (no unlisted violation)", prop, tier);
        0
    }
}

/// Minimise (within a time budget) and make sure the replay file reproduces
/// the same violation signature in a fresh process.
fn finalise_violation(rf: ReplayFile, budget_secs: u64) -> (ReplayFile, String) {
    let sig = rf.violation.signature.clone();
    let prop = rf.violation.property.clone();
    let orig = rf.clone();
    let mut note;
    let mut cur = rf;
    // (a hang is confirmed only by waiting out the stall backstop: every
    // candidate of a minimisation would cost 240 s, so it is reported as found)
    let budget_secs = if cur.violation.kind == "hang" { 0 } else { budget_secs };
    if budget_secs > 0 {
        let (min_scen, tests) = minimize::minimise(&cur.scenario, &cur.violation, Duration::from_secs(budget_secs));
        note = format!("minimised with {} candidate executions", tests);
        cur.scenario = min_scen;
    } else {
        note = "not minimised (budget)".to_string();
    }
    // verify in a fresh process
    let iso = run_isolated(&cur.scenario, Duration::from_secs(HARD_LIMIT_SECS));
    match iso_violation(&prop, &iso, &cur.scenario) {
        Some(v) if v.signature == sig => {
            cur.violation = v;
            note.push_str("; replay verified in a fresh process");
            (cur, note)
        }
        _ => {
            // fall back to the unminimised scenario
            let iso = run_isolated(&orig.scenario, Duration::from_secs(HARD_LIMIT_SECS));
            match iso_violation(&prop, &iso, &orig.scenario) {
                Some(v) if v.signature == sig => (
                    ReplayFile {
                        violation: v,
                        ..orig
                    },
                    "unminimised (minimised form did not reproduce in a fresh process); replay verified in a fresh process".into(),
                ),
                _ => (
                    orig,
                    "WARNING: violation did not reproduce in a fresh process (see DESIGN §3.8 and §11: only hash-order dependence or a baton takeover can do this)".into(),
                ),
            }
        }
    }
}

#[allow(clippy::too_many_arguments)]
fn write_evidence(
    prop: &str,
    tier: &str,
    seed: u64,
    tp: &Tier,
    mut agg: Agg,
    explore_secs: f64,
    wall: f64,
    stopped_early: bool,
    violations: u64,
    known_hits: &[String],
    aborts: u64,
    corpus: usize,
    workers: usize,
) {
    dedup(&mut agg.fps);
    dedup(&mut agg.interleavings);
    dedup(&mut agg.deliveries);
    let distinct_nontrivial = agg.fps.len() as u64;
    let mut sites = serde_json::Map::new();
    let mut stuck = Vec::new();
    for (i, name) in SITE_NAMES.iter().enumerate() {
        let v = agg.sites.get(i).copied().unwrap_or(0);
        sites.insert(name.to_string(), serde_json::json!(v));
        if v == 0 {
            stuck.push(name.to_string());
        }
    }
    let runs_per_hour = if explore_secs > 0.0 {
        (agg.runs as f64 / explore_secs * 3600.0) as u64
    } else {
        0
    };
    let rule = if prop == "C01" {
        "Each evaluation is one simulated run: a scenario (document, configuration, width, route, read plan with faults, stack size) generated from run_seed = mix(VERIF_SEED, property, run_index), executed against the real library on a dedicated OS thread under the step clock. A run is NON-TRIVIAL if a fault actually fired (short read, EINTR, scribble, hard error, cut, transport corruption), or a stream arrived in more chunks than one per reader, or the document is a deep nest run on a chosen stack size. DISTINCT counts distinct fingerprints (hash of the complete event log: every read result, scheduling point and op outcome) among non-trivial runs."
    } else {
        "Each evaluation is one simulated run: 1-4 caller threads executing op histories (one-shot routes, staged parse/build/clone/render, hand-offs) over one document and configuration, with per-op read plans and a seeded scheduler; every op result is compared with the one-shot reference model for the delivered bytes and width. A run is NON-TRIVIAL if a fault fired (short read, EINTR, scribble, hard error, cut), a stream arrived in two or more chunks, or a preemption/thread switch happened. DISTINCT counts distinct fingerprints (hash of the complete event log: every read result, scheduling decision and op outcome) among non-trivial runs."
    };
    let ev = serde_json::json!({
        "property_id": prop,
        "tier": tier,
        "seed": seed,
        "level": "exploration",
        "coverage": {
            "evaluations": agg.runs,
            "distinct_nontrivial": distinct_nontrivial,
            "rule": rule,
            "samples": agg.samples,
            "exhaustive": false,
            "runs_planned": tp.runs,
            "corpus_scenarios": corpus,
            "stopped_early_by_wall_cap": stopped_early,
            "nontrivial_runs": agg.nontrivial_runs,
            "runs_per_hour": runs_per_hour,
            "seeds": format!("run_index 0..{} of VERIF_SEED {} (run_seed = mix(VERIF_SEED, property, run_index))", agg.runs, seed),
            "simulated_time_ticks_total": agg.ticks_total,
            "simulated_time_ticks_max_per_thread": agg.ticks_max,
            "simulated_time_ticks_max_run_index": agg.ticks_max_index,
            "fuel_per_thread": if prop == "C01" { crate::c01::FUEL } else { crate::c10::FUEL },
            "fuel_headroom_factor": if agg.ticks_max > 0 { (if prop == "C01" { crate::c01::FUEL } else { crate::c10::FUEL }) / agg.ticks_max } else { 0 },
            "faults_fired": serde_json::to_value(agg.faults).unwrap(),
            "runs_with_hard_error_fired": agg.faulty_runs,
            "runs_without_hard_error": agg.fault_free_runs,
            "distinct_interleavings": agg.interleavings.len(),
            "distinct_delivery_shapes": agg.deliveries.len(),
            "scheduling_points": agg.sched_points,
            "events": agg.events,
            "ops_executed": agg.ops,
            "results_compared_with_reference": agg.compared,
            "scenarios_discarded_reference_out_of_fuel": agg.discarded,
            "tick_and_probe_sites": sites,
            "probe_sites_never_hit": stuck,
            "outcome_classes": agg.outcomes,
            "scenario_classes": agg.classes,
            "routes": agg.routes,
            "decorators": agg.decorators,
            "stack_sizes": agg.stacks,
            "scheduler_policies": agg.policies,
            "threads_per_run": agg.threads_hist,
            "max_nesting_depth": agg.max_depth,
            "slowest_run_wall_ms": agg.slowest_run_ms,
            "slowest_run_index": agg.slowest_run_index,
            "stall_backstop_s": STALL_SECS,
            "memory_budget_bytes_per_run": crate::alloc::DEFAULT_BUDGET,
            "memory_peak_max_bytes": agg.mem_peak_max,
            "memory_peak_max_run_index": agg.mem_peak_max_index,
            "memory_peak_mean_bytes": if agg.runs > 0 { agg.mem_peak_total / agg.runs } else { 0 },
            "memory_budget_headroom_factor": if agg.mem_peak_max > 0 { crate::alloc::DEFAULT_BUDGET as u64 / agg.mem_peak_max } else { 0 },
            "memory_peak_histogram": agg.mem_hist,
            "allocator_calls_counted": agg.alloc_calls,
            "runs_with_a_second_document_or_configuration": agg.runs_with_variants,
            "runs_executed_twice_for_repeat_check": agg.runs_repeat_checked,
            "runs_judged_against_references_from_a_fresh_process": agg.runs_fresh_reference,
            "runs_with_process_environment_changed": agg.runs_env_changed,
            "baton_takeovers_from_blocked_holders": agg.takeovers,
            "worker_processes": workers,
            "worker_deaths_attributed": aborts,
            "known_findings_hit": known_hits,
            "components": {
                "real": ["html2text (all of it, built from /repo's working tree with --cfg html2text_verif, overflow checks and debug assertions on)", "html5ever", "markup5ever", "tendril", "string_cache", "nom", "unicode-width", "std threads and stacks"],
                "simulated": ["reader / transport (SimReader)", "caller-thread scheduler (baton)", "step clock (tick hook)", "allocator budget (counting global allocator around the system allocator)"],
                "absent": ["wall clock", "disk", "network"]
            }
        },
        "assumptions": [
            "seeded sampling: a clean batch is evidence, not proof",
            "std::collections RandomState keys are not controlled by the simulator (sampled: repeated ops and fresh threads); html2text does not iterate over hash containers",
            "allocation failure is not injected at arbitrary points (Rust aborts on OOM by design); every run has a budget of live heap bytes counted by the simulator's allocator, beyond which allocation fails and the abort is attributed to the run; RLIMIT_AS remains as a safety net",
            "the stall backstop (no scheduler event and no step for 240 s, or 240 s of processor time used by one run; judged by a watchdog inside the executing process, independent of machine load) only covers loops that contain no tick site, deadlocks and runs that are too slow per step"
        ],
        "wall_s": wall,
        "violations": violations,
    });
    let dir = verif_dir().join("evidence");
    let _ = std::fs::create_dir_all(&dir);
    let path = dir.join(format!("{}.json", prop));
    std::fs::write(&path, serde_json::to_string_pretty(&ev).unwrap()).expect("write evidence");
}

// ------------------------------------------------------------------ replay

pub fn cmd_replay(args: &[String]) -> i32 {
    if args.is_empty() {
        eprintln!("usage: h2tsim replay <file>");
        return 2;
    }
    let path = Path::new(&args[0]);
    let rf = match load_replay(path) {
        Ok(r) => r,
        Err(e) => {
            eprintln!("h2tsim: cannot load replay file: {}", e);
            return 2;
        }
    };
    let iso = run_isolated(&rf.scenario, Duration::from_secs(HARD_LIMIT_SECS));
    let r = match &iso {
        Iso::HarnessError(e) => {
            eprintln!("h2tsim: harness error: {}", e);
            2
        }
        _ => match iso_violation(&rf.violation.property, &iso, &rf.scenario) {
            Some(v) => {
                let same = v.signature == rf.violation.signature;
                println!(
                    "VIOLATION property={} replay={}\n  kind={} signature={} ({})\n  {}",
                    v.property,
                    path.display(),
                    v.kind,
                    v.signature,
                    if same { "same signature as recorded" } else { "DIFFERENT signature from the recorded one" },
                    v.detail
                );
                1
            }
            None => {
                println!("replay of {}: no violation (recorded: {})", path.display(), rf.violation.signature);
                0
            }
        },
    };
    remove_scratch();
    r
}

// ------------------------------------------------------------------ small tools

pub fn cmd_gen(args: &[String]) -> i32 {
    if args.len() < 3 {
        return 2;
    }
    let quick = args.get(3).map(|s| s == "quick").unwrap_or(false);
    let scen = generate(&args[0], args[1].parse().unwrap(), args[2].parse().unwrap(), quick);
    println!("{}", serde_json::to_string_pretty(&scen).unwrap());
    0
}

pub fn cmd_local(args: &[String]) -> i32 {
    if args.len() < 4 {
        return 2;
    }
    let prop = &args[0];
    let seed: u64 = args[1].parse().unwrap();
    let from: u64 = args[2].parse().unwrap();
    let to: u64 = args[3].parse().unwrap();
    let quick = args.get(4).map(|s| s == "quick").unwrap_or(false);
    let mut agg = Agg::default();
    let start = Instant::now();
    let mut sigs: HashSet<String> = HashSet::new();
    for idx in from..to {
        let scen = generate(prop, seed, idx, quick);
        let ev = evaluate(&scen, false);
        account(&mut agg, &scen, idx, &ev);
        if let Some(v) = ev.violation {
            if sigs.insert(v.signature.clone()) {
                println!("run {}: {} {}\n   {}", idx, v.kind, v.signature, v.detail);
            }
        }
    }
    dedup(&mut agg.fps);
    println!(
        "{} runs in {:.2}s; nontrivial {} distinct {}; ticks max {} (run {}); faults {:?}; outcomes {:?}; discarded {}",
        agg.runs,
        start.elapsed().as_secs_f64(),
        agg.nontrivial_runs,
        agg.fps.len(),
        agg.ticks_max,
        agg.ticks_max_index,
        agg.faults,
        agg.outcomes,
        agg.discarded
    );
    0
}

/// Calibration aid (not a check): peak live bytes of each run against the
/// size of its input and of what it rendered.
pub fn debug_mem(prop: &str, seed: u64, from: u64, to: u64, quick: bool, min_mib: u64) {
    set_limits();
    for idx in from..to {
        let scen = generate(prop, seed, idx, quick);
        let ev = evaluate_watched(&scen, false);
        if ev.peak_bytes >> 20 >= min_mib {
            let doc = scen.doc.materialise().len();
            let out: usize = ev.res.records.iter().map(|r| r.text_len).sum();
            let widths: Vec<String> = ev.res.records.iter().filter_map(|r| r.width).map(|w| w.to_string()).collect();
            println!(
                "run {} class={} peak={} doc={} out={} ratio={:.1} depth={} deco={} widths={} ticks={}",
                idx,
                scen.class,
                ev.peak_bytes,
                doc,
                out,
                ev.peak_bytes as f64 / (doc + out + 1) as f64,
                scen.doc.depth(),
                deco_name(&scen.config.decorator),
                widths.join(","),
                ev.res.ticks_total
            );
        }
    }
}

pub fn cmd_minimize(args: &[String]) -> i32 {
    if args.len() < 2 {
        return 2;
    }
    let rf = match load_replay(Path::new(&args[0])) {
        Ok(r) => r,
        Err(e) => {
            eprintln!("cannot load: {}", e);
            return 2;
        }
    };
    let budget = args.get(2).and_then(|s| s.parse().ok()).unwrap_or(60);
    let (rf2, note) = finalise_violation(rf, budget);
    println!("{}", note);
    std::fs::write(&args[1], serde_json::to_string_pretty(&rf2).unwrap()).unwrap();
    remove_scratch();
    0
}

/// Determinism self-test: every run executed twice (second time in a fresh
/// child process) must produce the identical event-log hash.
pub fn cmd_selftest(args: &[String]) -> i32 {
    if args.len() < 5 || args[0] != "determinism" {
        return 2;
    }
    let prop = &args[1];
    let seed: u64 = args[2].parse().unwrap();
    let from: u64 = args[3].parse().unwrap();
    let to: u64 = args[4].parse().unwrap();
    let quick = args.get(5).map(|s| s == "quick").unwrap_or(true);
    // Print one line per run; the caller diffs the outputs of several
    // processes / worker counts.
    for idx in from..to {
        let scen = generate(prop, seed, idx, quick);
        let ev = evaluate(&scen, false);
        let ev2 = evaluate(&scen, false);
        let same = ev.res.log.log_hash == ev2.res.log.log_hash;
        println!(
            "{} {:016x} {:016x} {} {}",
            idx,
            ev.res.log.log_hash,
            ev.res.log.interleave_hash,
            ev.res.log.events,
            if same { "same" } else { "DIFFERENT-IN-PROCESS" }
        );
    }
    0
}

pub fn debug_panics(prop: &str, seed: u64, from: u64, to: u64) {
    use std::collections::BTreeMap;
    let mut m: BTreeMap<String, (u64, u64)> = BTreeMap::new();
    for idx in from..to {
        let scen = generate(prop, seed, idx, true);
        let ev = evaluate(&scen, false);
        for r in &ev.res.records {
            if let crate::exec::Outcome::Panic { msg, loc } = &r.outcome {
                let e = m.entry(format!("{} @ {}", msg, loc)).or_insert((0, idx));
                e.0 += 1;
            }
        }
    }
    for (k, (n, first)) in m {
        println!("{} x{} first run {}", k, n, first);
    }
}

pub fn debug_skips(prop: &str, seed: u64, from: u64, to: u64) {
    use std::collections::BTreeMap;
    let mut m: BTreeMap<String, (u64, u64)> = BTreeMap::new();
    for idx in from..to {
        let scen = generate(prop, seed, idx, true);
        let ev = evaluate(&scen, false);
        for r in &ev.res.records {
            let e = m.entry(format!("{}/{}", scen.class, r.name)).or_insert((0, 0));
            e.0 += 1;
            if matches!(r.outcome, crate::exec::Outcome::Skipped) {
                e.1 += 1;
            }
        }
    }
    for (k, (n, s)) in m {
        println!("{:40} total {:6} skipped {:6}", k, n, s);
    }
}
