//! The allocator seam: every allocation of the process (library and harness
//! alike) goes through a counting wrapper around the system allocator.
//!
//! It gives the simulator two things the address-space limit cannot:
//!
//! * a **memory budget per run** that is exact and repeatable - counted in
//!   live heap bytes above the level at which the run started, so it does not
//!   depend on fragmentation left behind by earlier runs of the same worker,
//!   on the malloc implementation, or on thread stacks and mapped files;
//!   when a run would exceed it the allocation *fails* (null), which Rust
//!   turns into an abort - the same thing a real out-of-memory condition
//!   does - and the driver attributes the death to the announced run;
//! * the **peak** of every run, which goes into the evidence (largest run,
//!   headroom to the budget, bytes per byte of input and output).
//!
//! Allocation failure is *not* injected at arbitrary points: Rust aborts on
//! it by design, so "never aborts" cannot be asked of a process that is
//! refused memory it legitimately needs.  The budget only bounds what a run
//! may need.

use std::alloc::{GlobalAlloc, Layout, System};
use std::sync::atomic::{AtomicU64, AtomicUsize, Ordering::Relaxed};

pub struct Counting;

static LIVE: AtomicUsize = AtomicUsize::new(0);
static PEAK: AtomicUsize = AtomicUsize::new(0);
static LIMIT: AtomicUsize = AtomicUsize::new(usize::MAX);
static CALLS: AtomicU64 = AtomicU64::new(0);

#[inline]
fn charge(size: usize) -> bool {
    let new = LIVE.fetch_add(size, Relaxed).wrapping_add(size);
    if new > LIMIT.load(Relaxed) {
        LIVE.fetch_sub(size, Relaxed);
        refuse(size, new);
        return false;
    }
    PEAK.fetch_max(new, Relaxed);
    true
}

#[cold]
fn refuse(size: usize, would_be: usize) {
    // No allocation here: format into a stack buffer and write(2) it.
    let mut buf = [0u8; 160];
    let mut n = 0;
    let mut put = |s: &[u8]| {
        for &b in s {
            if n < buf.len() {
                buf[n] = b;
                n += 1;
            }
        }
    };
    put(b"h2tsim: MEMORY-BUDGET: allocation of ");
    put_num(&mut put, size as u64);
    put(b" bytes refused: the run would hold ");
    put_num(&mut put, would_be.saturating_sub(BASE.load(Relaxed)) as u64);
    put(b" live bytes, budget ");
    put_num(&mut put, LIMIT.load(Relaxed).saturating_sub(BASE.load(Relaxed)) as u64);
    put(b"\n");
    unsafe {
        libc::write(2, buf.as_ptr() as *const libc::c_void, n);
    }
}

fn put_num(put: &mut impl FnMut(&[u8]), mut v: u64) {
    let mut d = [0u8; 20];
    let mut i = d.len();
    loop {
        i -= 1;
        d[i] = b'0' + (v % 10) as u8;
        v /= 10;
        if v == 0 {
            break;
        }
    }
    put(&d[i..]);
}

static BASE: AtomicUsize = AtomicUsize::new(0);

unsafe impl GlobalAlloc for Counting {
    unsafe fn alloc(&self, layout: Layout) -> *mut u8 {
        CALLS.fetch_add(1, Relaxed);
        if !charge(layout.size()) {
            return std::ptr::null_mut();
        }
        let p = System.alloc(layout);
        if p.is_null() {
            LIVE.fetch_sub(layout.size(), Relaxed);
        }
        p
    }
    unsafe fn alloc_zeroed(&self, layout: Layout) -> *mut u8 {
        CALLS.fetch_add(1, Relaxed);
        if !charge(layout.size()) {
            return std::ptr::null_mut();
        }
        let p = System.alloc_zeroed(layout);
        if p.is_null() {
            LIVE.fetch_sub(layout.size(), Relaxed);
        }
        p
    }
    unsafe fn dealloc(&self, ptr: *mut u8, layout: Layout) {
        System.dealloc(ptr, layout);
        LIVE.fetch_sub(layout.size(), Relaxed);
    }
    unsafe fn realloc(&self, ptr: *mut u8, layout: Layout, new_size: usize) -> *mut u8 {
        CALLS.fetch_add(1, Relaxed);
        let old = layout.size();
        if new_size > old {
            if !charge(new_size - old) {
                return std::ptr::null_mut();
            }
            let p = System.realloc(ptr, layout, new_size);
            if p.is_null() {
                LIVE.fetch_sub(new_size - old, Relaxed);
            }
            p
        } else {
            let p = System.realloc(ptr, layout, new_size);
            if !p.is_null() {
                LIVE.fetch_sub(old - new_size, Relaxed);
            }
            p
        }
    }
}

/// Start accounting for one run: the budget is counted from the present
/// level of live bytes.
pub fn run_begin(budget: usize) {
    let base = LIVE.load(Relaxed);
    BASE.store(base, Relaxed);
    PEAK.store(base, Relaxed);
    CALLS.store(0, Relaxed);
    LIMIT.store(base.saturating_add(budget), Relaxed);
}

/// End of the run: (peak live bytes above the starting level, allocator calls).
pub fn run_end() -> (u64, u64) {
    LIMIT.store(usize::MAX, Relaxed);
    let peak = PEAK.load(Relaxed).saturating_sub(BASE.load(Relaxed));
    (peak as u64, CALLS.load(Relaxed))
}

/// The budget of live heap bytes one run may hold above its starting level.
/// Flat and generous (the property asks that the call does not abort, not
/// that it is frugal); experiment knob `H2TSIM_MEM_MIB` for calibration.
pub fn budget() -> usize {
    std::env::var("H2TSIM_MEM_MIB")
        .ok()
        .and_then(|s| s.parse::<usize>().ok())
        .map(|m| m << 20)
        .unwrap_or(DEFAULT_BUDGET)
}

pub const DEFAULT_BUDGET: usize = 4 << 30;
