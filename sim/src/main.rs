#![recursion_limit = "1024"]
mod alloc;
mod c01;
mod c10;
mod deco;
mod driver;
mod eval;
mod exec;
mod gen;
mod minimize;
mod prng;
mod reader;
mod scenario;
mod sched;
mod seeds;

use std::process::exit;

#[global_allocator]
static GLOBAL: alloc::Counting = alloc::Counting;

fn usage() -> ! {
    eprintln!(
        "usage:
  h2tsim check <C01|C10> <quick|thorough> [--seed N] [--runs N] [--workers N] [--max-wall SECS]
  h2tsim replay <file>
  h2tsim worker <prop> <seed> <quick|thorough>          (internal)
  h2tsim run-scenario <file> [--trace]                   (internal)
  h2tsim gen <prop> <seed> <index> [quick|thorough]      print the scenario of one run
  h2tsim local <prop> <seed> <from> <to> [quick]         run in-process, no isolation
  h2tsim minimize <in> <out> [budget-secs]
  h2tsim selftest determinism <prop> <seed> <from> <to>"
    );
    exit(2)
}

fn main() {
    let args: Vec<String> = std::env::args().collect();
    if args.len() < 2 {
        usage();
    }
    let code = match args[1].as_str() {
        "check" => driver::cmd_check(&args[2..]),
        "replay" => driver::cmd_replay(&args[2..]),
        "worker" => driver::cmd_worker(&args[2..]),
        "run-scenario" => driver::cmd_run_scenario(&args[2..]),
        "refserve" => driver::cmd_refserve(),
        "gen" => driver::cmd_gen(&args[2..]),
        "local" => driver::cmd_local(&args[2..]),
        "minimize" => driver::cmd_minimize(&args[2..]),
        "selftest" => driver::cmd_selftest(&args[2..]),
        "skips" => {
            driver::debug_skips(&args[2], args[3].parse().unwrap(), args[4].parse().unwrap(), args[5].parse().unwrap());
            0
        }
        "mem" => {
            driver::debug_mem(
                &args[2],
                args[3].parse().unwrap(),
                args[4].parse().unwrap(),
                args[5].parse().unwrap(),
                args.get(6).map(|s| s == "quick").unwrap_or(false),
                args.get(7).and_then(|s| s.parse().ok()).unwrap_or(0),
            );
            0
        }
        "panics" => {
            driver::debug_panics(&args[2], args[3].parse().unwrap(), args[4].parse().unwrap(), args[5].parse().unwrap());
            0
        }
        _ => usage(),
    };
    exit(code)
}
