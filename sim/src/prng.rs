//! SplitMix64 / xoshiro256** — own implementation so streams are stable
//! across toolchains and crate versions.  Every random choice in the
//! simulator comes from an `Rng` derived from the run seed.

#[derive(Clone, Debug)]
pub struct Rng {
    s: [u64; 4],
}

pub fn splitmix(x: &mut u64) -> u64 {
    *x = x.wrapping_add(0x9E37_79B9_7F4A_7C15);
    let mut z = *x;
    z = (z ^ (z >> 30)).wrapping_mul(0xBF58_476D_1CE4_E5B9);
    z = (z ^ (z >> 27)).wrapping_mul(0x94D0_49BB_1331_11EB);
    z ^ (z >> 31)
}

/// Mix several integers into one seed.
pub fn mix(parts: &[u64]) -> u64 {
    let mut h: u64 = 0x243F_6A88_85A3_08D3;
    for &p in parts {
        let mut x = h ^ p;
        h = splitmix(&mut x) ^ h.rotate_left(23);
    }
    h
}

/// FNV-1a over bytes, used for fingerprints and digests.
pub fn fnv(bytes: &[u8]) -> u64 {
    let mut h: u64 = 0xcbf2_9ce4_8422_2325;
    for &b in bytes {
        h ^= b as u64;
        h = h.wrapping_mul(0x0000_0100_0000_01B3);
    }
    h
}

pub fn fnv_add(h: u64, v: u64) -> u64 {
    let mut h = h;
    for i in 0..8 {
        h ^= (v >> (i * 8)) & 0xff;
        h = h.wrapping_mul(0x0000_0100_0000_01B3);
    }
    h
}

impl Rng {
    pub fn new(seed: u64) -> Rng {
        let mut x = seed;
        let s = [
            splitmix(&mut x),
            splitmix(&mut x),
            splitmix(&mut x),
            splitmix(&mut x),
        ];
        Rng { s }
    }

    /// An independent stream derived from this seed and a label (does not
    /// advance self).
    pub fn stream(seed: u64, label: u64) -> Rng {
        Rng::new(mix(&[seed, label]))
    }

    pub fn next_u64(&mut self) -> u64 {
        let result = self.s[1].wrapping_mul(5).rotate_left(7).wrapping_mul(9);
        let t = self.s[1] << 17;
        self.s[2] ^= self.s[0];
        self.s[3] ^= self.s[1];
        self.s[1] ^= self.s[2];
        self.s[0] ^= self.s[3];
        self.s[2] ^= t;
        self.s[3] = self.s[3].rotate_left(45);
        result
    }

    /// Uniform in 0..n (n > 0).
    pub fn below(&mut self, n: u64) -> u64 {
        debug_assert!(n > 0);
        ((self.next_u64() as u128 * n as u128) >> 64) as u64
    }

    pub fn usize_below(&mut self, n: usize) -> usize {
        self.below(n as u64) as usize
    }

    /// Uniform in lo..=hi.
    pub fn range(&mut self, lo: u64, hi: u64) -> u64 {
        debug_assert!(lo <= hi);
        if lo == 0 && hi == u64::MAX {
            return self.next_u64();
        }
        lo + self.below(hi - lo + 1)
    }

    pub fn urange(&mut self, lo: usize, hi: usize) -> usize {
        self.range(lo as u64, hi as u64) as usize
    }

    /// True with probability num/den.
    pub fn chance(&mut self, num: u64, den: u64) -> bool {
        self.below(den) < num
    }

    pub fn pick<T: Copy>(&mut self, items: &[T]) -> T {
        items[self.usize_below(items.len())]
    }

    /// Pick an index by integer weights.
    pub fn weighted(&mut self, weights: &[u32]) -> usize {
        let total: u64 = weights.iter().map(|&w| w as u64).sum();
        let mut x = self.below(total.max(1));
        for (i, &w) in weights.iter().enumerate() {
            if x < w as u64 {
                return i;
            }
            x -= w as u64;
        }
        weights.len() - 1
    }
}
