//! Delta-debugging minimiser over scenarios.  A candidate is kept only if
//! the same violation signature recurs.  Order: threads, ops, faults and
//! read plans, schedule, options, widths, document.

use crate::driver::{iso_violation, run_isolated, Iso};
use crate::eval::evaluate;
use crate::scenario::*;
use std::time::{Duration, Instant};

struct Ctx<'a> {
    sig: &'a str,
    prop: &'a str,
    isolated: bool,
    deadline: Instant,
    tests: u64,
}

impl<'a> Ctx<'a> {
    fn out_of_time(&self) -> bool {
        Instant::now() >= self.deadline
    }
    fn fails(&mut self, s: &Scenario) -> bool {
        if self.out_of_time() {
            return false;
        }
        self.tests += 1;
        if self.isolated {
            let iso = run_isolated(s, Duration::from_secs(40));
            if let Iso::HarnessError(_) = iso {
                return false;
            }
            iso_violation(self.prop, &iso, s).map(|v| v.signature == self.sig).unwrap_or(false)
        } else {
            evaluate(s, false).violation.map(|v| v.signature == self.sig).unwrap_or(false)
        }
    }
}

fn try_apply<F: FnOnce(&mut Scenario)>(cx: &mut Ctx, cur: &mut Scenario, f: F) -> bool {
    let mut cand = cur.clone();
    f(&mut cand);
    if cand == *cur {
        return false;
    }
    if cx.fails(&cand) {
        *cur = cand;
        true
    } else {
        false
    }
}

/// After removing `removed` bytes at offset `at` from the document of
/// `variant`, shift the absolute offsets of every read plan over that
/// document and shrink the read steps that covered the removed range, so that
/// chunk boundaries stay at the same places of the remaining text.
fn adjust_plans(s: &mut Scenario, variant: usize, at: usize, removed: usize) {
    let nvar = s.num_variants();
    for t in s.threads.iter_mut() {
        let mut curv = 0usize;
        for op in t.ops.iter_mut() {
            if let Op::Use { variant: v } = op {
                curv = (*v as usize) % nvar;
                continue;
            }
            if curv != variant {
                continue;
            }
            let Some(plan) = op.plan_mut() else { continue };
            let shift = |o: usize| -> usize {
                if o <= at {
                    o
                } else if o >= at + removed {
                    o - removed
                } else {
                    at
                }
            };
            if let Some(c) = plan.cut_at.as_mut() {
                *c = shift(*c);
            }
            if let Some((e, _)) = plan.err_at.as_mut() {
                *e = shift(*e);
            }
            let mut pos = 0usize;
            let mut i = 0;
            while i < plan.steps.len() {
                match plan.steps[i] {
                    ReadStep::Data(n) | ReadStep::Scribble(n) | ReadStep::Reenter(n) => {
                        let (lo, hi) = (pos, pos + n as usize);
                        let ov = hi.min(at + removed).saturating_sub(lo.max(at));
                        pos = hi;
                        if ov > 0 {
                            let left = n as usize - ov;
                            if left == 0 {
                                plan.steps.remove(i);
                                continue;
                            }
                            plan.steps[i] = match plan.steps[i] {
                                ReadStep::Scribble(_) => ReadStep::Scribble(left as u32),
                                ReadStep::Reenter(_) => ReadStep::Reenter(left as u32),
                                _ => ReadStep::Data(left as u32),
                            };
                        }
                    }
                    ReadStep::Eintr => {}
                    // how much a Full read delivers depends on the caller's
                    // buffer: boundaries after it cannot be tracked
                    ReadStep::Full => break,
                }
                i += 1;
            }
        }
    }
}

fn variant_bytes(s: &Scenario, v: usize) -> Option<Vec<u8>> {
    match s.variant_doc(v) {
        DocSpec::Bytes { bytes } => {
            if v > 0 && s.variants[v - 1].doc.is_none() {
                None // shares the base document
            } else {
                Some(bytes.0.clone())
            }
        }
        _ => None,
    }
}

fn set_variant_bytes(s: &mut Scenario, v: usize, data: Vec<u8>) {
    let d = DocSpec::Bytes { bytes: Blob(data) };
    if v == 0 {
        s.doc = d;
    } else {
        s.variants[v - 1].doc = Some(d);
    }
}

fn ddmin_bytes(cx: &mut Ctx, cur: &mut Scenario) {
    for v in 0..cur.num_variants() {
        let Some(mut data) = variant_bytes(cur, v) else { continue };
        let mut chunk = (data.len() / 2).max(1);
        while chunk >= 1 && !cx.out_of_time() {
            let mut i = 0;
            let mut progress = false;
            while i < data.len() && !cx.out_of_time() {
                let end = (i + chunk).min(data.len());
                let mut cand_data = data.clone();
                cand_data.drain(i..end);
                let mut cand = cur.clone();
                set_variant_bytes(&mut cand, v, cand_data.clone());
                // the variants that share the base document read it too
                adjust_plans(&mut cand, v, i, end - i);
                if v == 0 {
                    for k in 1..cand.num_variants() {
                        if cand.variants[k - 1].doc.is_none() {
                            adjust_plans(&mut cand, k, i, end - i);
                        }
                    }
                }
                if cx.fails(&cand) {
                    data = cand_data;
                    *cur = cand;
                    progress = true;
                } else {
                    i = end;
                }
            }
            if chunk == 1 && !progress {
                break;
            }
            if !progress || chunk > data.len() {
                chunk /= 2;
            }
            if data.is_empty() {
                break;
            }
        }
    }
}

fn shrink_u32<F: Fn(&mut Scenario, u32)>(cx: &mut Ctx, cur: &mut Scenario, mut val: u32, set: F) -> u32 {
    // binary search towards 0 for the smallest value that still fails
    let mut lo = 0u32;
    while lo < val && !cx.out_of_time() {
        let mid = lo + (val - lo) / 2;
        let mut cand = cur.clone();
        set(&mut cand, mid);
        if cx.fails(&cand) {
            *cur = cand;
            val = mid;
        } else {
            lo = mid + 1;
        }
    }
    val
}

pub fn minimise(scen: &Scenario, v: &Violation, budget: Duration) -> (Scenario, u64) {
    let isolated = matches!(v.kind.as_str(), "abort" | "hang");
    let mut cx = Ctx {
        sig: &v.signature,
        prop: &v.property,
        isolated,
        deadline: Instant::now() + budget,
        tests: 0,
    };
    let mut cur = scen.clone();
    // A run that exhausts its fuel costs the whole budget of simulated steps.
    // Candidates are therefore tried with a smaller budget (a loop that never
    // ends exceeds any budget); the caller verifies the final scenario again
    // with the original fuel, so a merely slow candidate cannot survive.
    let full_fuel = cur.fuel;
    if v.kind == "fuel" {
        cur.fuel = cur.fuel.min(30_000_000);
    }
    // The starting point must fail (in this process / a child) or we return it untouched.
    if !cx.fails(&cur) {
        cur.fuel = full_fuel;
        return (cur, cx.tests);
    }

    for _round in 0..3 {
        let before = cur.clone();

        // 1. drop threads
        let mut t = 0;
        while cur.threads.len() > 1 && t < cur.threads.len() {
            if !try_apply(&mut cx, &mut cur, |s| {
                s.threads.remove(t);
            }) {
                t += 1;
            }
        }
        // 1b. drop the extra (document, configuration) variants
        if !cur.variants.is_empty() {
            try_apply(&mut cx, &mut cur, |s| {
                s.variants.clear();
                for t in s.threads.iter_mut() {
                    t.ops.retain(|o| !matches!(o, Op::Use { .. }));
                }
            });
            try_apply(&mut cx, &mut cur, |s| {
                for v in s.variants.iter_mut() {
                    v.config = None;
                }
            });
            try_apply(&mut cx, &mut cur, |s| {
                for v in s.variants.iter_mut() {
                    v.doc = None;
                }
            });
        }
        // 2. drop ops
        for t in 0..cur.threads.len() {
            let mut i = cur.threads[t].ops.len();
            while i > 0 {
                i -= 1;
                try_apply(&mut cx, &mut cur, |s| {
                    s.threads[t].ops.remove(i);
                });
            }
        }
        // 3. faults and read plans
        for t in 0..cur.threads.len() {
            for i in 0..cur.threads[t].ops.len() {
                if cur.threads[t].ops[i].plan().is_none() {
                    continue;
                }
                if try_apply(&mut cx, &mut cur, |s| {
                    *s.threads[t].ops[i].plan_mut().unwrap() = ReadPlan::one_shot();
                }) {
                    continue;
                }
                try_apply(&mut cx, &mut cur, |s| {
                    s.threads[t].ops[i].plan_mut().unwrap().err_at = None;
                });
                try_apply(&mut cx, &mut cur, |s| {
                    s.threads[t].ops[i].plan_mut().unwrap().cut_at = None;
                });
                try_apply(&mut cx, &mut cur, |s| {
                    s.threads[t].ops[i]
                        .plan_mut()
                        .unwrap()
                        .steps
                        .retain(|st| !matches!(st, ReadStep::Eintr));
                });
                try_apply(&mut cx, &mut cur, |s| {
                    for st in s.threads[t].ops[i].plan_mut().unwrap().steps.iter_mut() {
                        if let ReadStep::Scribble(n) | ReadStep::Reenter(n) = *st {
                            *st = ReadStep::Data(n);
                        }
                    }
                });
                // coarsen: merge adjacent steps / drop steps (towards one-shot)
                let mut chunk = cur.threads[t].ops[i].plan().unwrap().steps.len() / 2;
                while chunk >= 1 && !cx.out_of_time() {
                    let mut j = 0;
                    while j < cur.threads[t].ops[i].plan().unwrap().steps.len() {
                        let len = cur.threads[t].ops[i].plan().unwrap().steps.len();
                        let end = (j + chunk).min(len);
                        if !try_apply(&mut cx, &mut cur, |s| {
                            let steps = &mut s.threads[t].ops[i].plan_mut().unwrap().steps;
                            // replace steps j..end by one step delivering their sum
                            let total: u64 = steps[j..end]
                                .iter()
                                .map(|st| match st {
                                    ReadStep::Data(n) | ReadStep::Scribble(n) | ReadStep::Reenter(n) => *n as u64,
                                    ReadStep::Full => 4096,
                                    ReadStep::Eintr => 0,
                                })
                                .sum();
                            steps.drain(j..end);
                            if total > 0 {
                                steps.insert(j, ReadStep::Data(total.min(u32::MAX as u64) as u32));
                            }
                        }) {
                            j = end;
                        } else {
                            j += 1;
                        }
                    }
                    chunk /= 2;
                }
            }
        }
        // 4. schedule: never switch; then drop preemption points
        if cur.threads.len() > 1 {
            try_apply(&mut cx, &mut cur, |s| s.sched = SchedSpec::Explicit { choices: vec![] });
            try_apply(&mut cx, &mut cur, |s| s.sched = SchedSpec::RoundRobin);
        }
        for t in 0..cur.threads.len() {
            if !cur.threads[t].preempt_hit.is_empty() {
                if !try_apply(&mut cx, &mut cur, |s| s.threads[t].preempt_hit.clear()) {
                    let mut i = cur.threads[t].preempt_hit.len();
                    while i > 0 {
                        i -= 1;
                        try_apply(&mut cx, &mut cur, |s| {
                            s.threads[t].preempt_hit.remove(i);
                        });
                    }
                }
            }
            if !cur.threads[t].preempt_sites.is_empty() {
                if !try_apply(&mut cx, &mut cur, |s| s.threads[t].preempt_sites.clear()) {
                    let mut i = cur.threads[t].preempt_sites.len();
                    while i > 0 {
                        i -= 1;
                        try_apply(&mut cx, &mut cur, |s| {
                            s.threads[t].preempt_sites.remove(i);
                        });
                    }
                }
            }
            if !cur.threads[t].preempt_ticks.is_empty() {
                if try_apply(&mut cx, &mut cur, |s| s.threads[t].preempt_ticks.clear()) {
                    continue;
                }
                let mut i = cur.threads[t].preempt_ticks.len();
                while i > 0 {
                    i -= 1;
                    try_apply(&mut cx, &mut cur, |s| {
                        s.threads[t].preempt_ticks.remove(i);
                    });
                }
            }
        }
        // 5. options off; environment changes undone
        try_apply(&mut cx, &mut cur, |s| s.env.clear());
        let mut i = cur.env.len();
        while i > 0 {
            i -= 1;
            try_apply(&mut cx, &mut cur, |s| {
                s.env.remove(i);
            });
        }
        try_apply(&mut cx, &mut cur, |s| s.config.css.clear());
        let mut i = cur.config.css.len();
        while i > 0 {
            i -= 1;
            try_apply(&mut cx, &mut cur, |s| {
                s.config.css.remove(i);
            });
        }
        // shrink the text of the remaining sheets
        for i in 0..cur.config.css.len() {
            let mut chunk = (cur.config.css[i].text.len() / 2).max(1);
            while chunk >= 1 && !cx.out_of_time() {
                let mut j = 0;
                let mut progress = false;
                while j < cur.config.css[i].text.len() && !cx.out_of_time() {
                    let text = cur.config.css[i].text.clone();
                    let mut a = j;
                    while !text.is_char_boundary(a) {
                        a += 1;
                    }
                    let mut b = (a + chunk).min(text.len());
                    while !text.is_char_boundary(b) {
                        b += 1;
                    }
                    if a >= b {
                        break;
                    }
                    if try_apply(&mut cx, &mut cur, |s| {
                        s.config.css[i].text.replace_range(a..b, "");
                    }) {
                        progress = true;
                    } else {
                        j = b;
                    }
                }
                if chunk == 1 && !progress {
                    break;
                }
                if !progress {
                    chunk /= 2;
                }
            }
        }
        try_apply(&mut cx, &mut cur, |s| s.config.use_doc_css = false);
        try_apply(&mut cx, &mut cur, |s| s.config.builder_order = 0);
        try_apply(&mut cx, &mut cur, |s| s.config.allow_width_overflow = false);
        try_apply(&mut cx, &mut cur, |s| s.config.min_wrap_width = None);
        try_apply(&mut cx, &mut cur, |s| s.config.max_wrap_width = None);
        try_apply(&mut cx, &mut cur, |s| s.config.pad_block_width = false);
        try_apply(&mut cx, &mut cur, |s| s.config.raw_mode = None);
        try_apply(&mut cx, &mut cur, |s| s.config.no_table_borders = false);
        try_apply(&mut cx, &mut cur, |s| s.config.no_link_wrapping = false);
        try_apply(&mut cx, &mut cur, |s| s.config.link_footnotes = None);
        try_apply(&mut cx, &mut cur, |s| s.config.unicode_strikeout = None);
        try_apply(&mut cx, &mut cur, |s| s.config.do_decorate = false);
        if matches!(cur.config.decorator, Deco::Custom { .. }) {
            try_apply(&mut cx, &mut cur, |s| s.config.decorator = Deco::PlainNoDecorate);
        }
        if matches!(cur.config.decorator, Deco::Plain) {
            try_apply(&mut cx, &mut cur, |s| s.config.decorator = Deco::PlainNoDecorate);
        }
        for t in 0..cur.threads.len() {
            try_apply(&mut cx, &mut cur, |s| s.threads[t].stack_kib = 8192);
        }
        // 6. widths
        for t in 0..cur.threads.len() {
            for i in 0..cur.threads[t].ops.len() {
                let Some(w) = cur.threads[t].ops[i].clone().width_mut().map(|w| *w) else {
                    continue;
                };
                for cand in [1usize, 2, 3, 5, 8, 10, 20, 40, 80] {
                    if cand >= w {
                        break;
                    }
                    if try_apply(&mut cx, &mut cur, |s| {
                        *s.threads[t].ops[i].width_mut().unwrap() = cand;
                    }) {
                        break;
                    }
                }
            }
        }
        // 7. document
        match cur.doc.clone() {
            DocSpec::Nest { depth, closes, .. } => {
                try_apply(&mut cx, &mut cur, |s| {
                    if let DocSpec::Nest { prefix, .. } = &mut s.doc {
                        prefix.0.clear();
                    }
                });
                try_apply(&mut cx, &mut cur, |s| {
                    if let DocSpec::Nest { suffix, .. } = &mut s.doc {
                        suffix.0.clear();
                    }
                });
                try_apply(&mut cx, &mut cur, |s| {
                    if let DocSpec::Nest { closes, .. } = &mut s.doc {
                        *closes = 0;
                    }
                });
                try_apply(&mut cx, &mut cur, |s| {
                    if let DocSpec::Nest { inner, .. } = &mut s.doc {
                        inner.0 = b"x".to_vec();
                    }
                });
                let _ = closes;
                shrink_u32(&mut cx, &mut cur, depth, |s, v| {
                    if let DocSpec::Nest { depth, closes, .. } = &mut s.doc {
                        *depth = v;
                        *closes = (*closes).min(v);
                    }
                });
            }
            DocSpec::Bytes { .. } => ddmin_bytes(&mut cx, &mut cur),
        }
        if cur == before || cx.out_of_time() {
            break;
        }
    }
    cur.fuel = full_fuel;
    (cur, cx.tests)
}
