//! The simulated transport: an `io::Read` whose every call is one simulator
//! event, driven by an explicit `ReadPlan`.

use crate::scenario::{ReadPlan, ReadStep};
use crate::sched::{Ctx, EventKind};
use std::io;

#[derive(Clone, Copy, Debug, Default, serde::Serialize, serde::Deserialize)]
pub struct FaultStats {
    pub reads: u64,
    pub chunks: u64,
    pub short: u64,
    pub eintr: u64,
    pub scribble: u64,
    pub hard_error: u64,
    pub cut: u64,
    pub preempt: u64,
    pub switches: u64,
    pub handoffs: u64,
    pub corrupt: u64,
    #[serde(default)]
    pub reenter: u64,
}

impl FaultStats {
    pub fn add(&mut self, o: &FaultStats) {
        self.reads += o.reads;
        self.chunks += o.chunks;
        self.short += o.short;
        self.eintr += o.eintr;
        self.scribble += o.scribble;
        self.hard_error += o.hard_error;
        self.cut += o.cut;
        self.preempt += o.preempt;
        self.switches += o.switches;
        self.handoffs += o.handoffs;
        self.corrupt += o.corrupt;
        self.reenter += o.reenter;
    }
    pub fn any_fault(&self) -> bool {
        self.short + self.eintr + self.scribble + self.hard_error + self.cut + self.preempt + self.switches + self.corrupt > 0
    }
}

pub struct SimReader<'a> {
    data: &'a [u8],
    pos: usize,
    limit: usize,
    plan: &'a ReadPlan,
    step: usize,
    ctx: &'a Ctx,
    pub errored: bool,
    pub delivered_chunks: u64,
}

impl<'a> SimReader<'a> {
    pub fn new(data: &'a [u8], plan: &'a ReadPlan, ctx: &'a Ctx) -> SimReader<'a> {
        SimReader {
            data,
            pos: 0,
            limit: plan.limit(data.len()),
            plan,
            step: 0,
            ctx,
            errored: false,
            delivered_chunks: 0,
        }
    }
    pub fn delivered(&self) -> usize {
        self.pos
    }
}

const SCRIBBLE: &[u8] = b"<\xff&\x00>\xe2\x80</p><table>\r";

impl<'a> io::Read for SimReader<'a> {
    fn read(&mut self, buf: &mut [u8]) -> io::Result<usize> {
        // Every read is a scheduling point.
        self.ctx.yield_point(EventKind::Read);
        self.ctx.with_stats(|s| s.reads += 1);
        if buf.is_empty() {
            return Ok(0);
        }
        let step = self.plan.steps.get(self.step).copied().unwrap_or(ReadStep::Full);
        if self.step < self.plan.steps.len() {
            self.step += 1;
        }
        if let ReadStep::Eintr = step {
            self.ctx.with_stats(|s| s.eintr += 1);
            self.ctx.log(EventKind::ReadResult, u64::MAX - 1);
            // the forms an interrupted read takes: the raw OS error (what a
            // real read(2) gives), a bare kind, a kind with a message
            return Err(match self.step % 3 {
                0 => io::Error::from_raw_os_error(libc::EINTR),
                1 => io::Error::from(io::ErrorKind::Interrupted),
                _ => io::Error::new(io::ErrorKind::Interrupted, "simulated EINTR"),
            });
        }
        if let ReadStep::Reenter(_) = step {
            self.ctx.with_stats(|s| s.reenter += 1);
            crate::exec::nested_call();
        }
        let remaining = self.limit - self.pos;
        if remaining == 0 {
            if let Some((_, kind)) = self.plan.err_at.filter(|&(e, _)| e == self.limit) {
                self.errored = true;
                self.ctx.with_stats(|s| s.hard_error += 1);
                self.ctx.log(EventKind::ReadResult, u64::MAX - 2);
                return Err(kind.to_io());
            }
            if self.limit < self.data.len() {
                self.ctx.with_stats(|s| s.cut += 1);
            }
            self.ctx.log(EventKind::ReadResult, 0);
            return Ok(0);
        }
        let (n, scribble) = match step {
            ReadStep::Full => (u32::MAX, false),
            ReadStep::Data(n) | ReadStep::Reenter(n) => (n.max(1), false),
            ReadStep::Scribble(n) => (n.max(1), true),
            ReadStep::Eintr => unreachable!(),
        };
        let natural = buf.len().min(remaining);
        let k = natural.min(n as usize);
        buf[..k].copy_from_slice(&self.data[self.pos..self.pos + k]);
        self.pos += k;
        self.delivered_chunks += 1;
        self.ctx.with_stats(|s| {
            s.chunks += 1;
            if k < natural {
                s.short += 1;
            }
        });
        if scribble && k < buf.len() {
            // The contents of buf past the returned count are unspecified;
            // a correct consumer never looks at them.
            for (i, b) in buf[k..].iter_mut().enumerate() {
                *b = SCRIBBLE[i % SCRIBBLE.len()];
            }
            self.ctx.with_stats(|s| s.scribble += 1);
        }
        self.ctx.log(EventKind::ReadResult, k as u64);
        Ok(k)
    }
}
