//! Workload generators: documents, CSS, configurations, widths, read plans.
//! All choices come from the `Rng` passed in.

use crate::prng::Rng;
use crate::scenario::*;

// ---------------------------------------------------------------- text

const WORDS: &[&str] = &[
    "a", "I", "to", "of", "the", "and", "lorem", "ipsum", "dolor", "sit", "amet", "hello", "world",
    "x", "foo", "bar", "baz", "quux", "wrap", "table", "cell", "item", "one", "two", "three",
    "1", "42", "2024", "3.14", "-", "--", "...", "e.g.", "(see)", "http://example.com/a/b?c=d",
    "user@example.org", "don't", "naïve", "café", "Straße", "Ünïcödé",
];

const WIDE: &[&str] = &[
    "宽", "字符", "日本語", "한국어", "中文字符测试", "😀", "👍🏽", "🇬🇧", "ｆｕｌｌ", "、。", "宽a宽",
];

/// Sequences whose width as a string differs from the sum of their
/// characters' widths (emoji / text presentation selectors, ligatures,
/// conjoining jamo), and other multi-character clusters.
const SEQUENCES: &[&str] = &[
    "\u{263a}\u{fe0f}", "\u{2764}\u{fe0f}", "\u{a9}\u{fe0f}", "1\u{fe0f}\u{20e3}", "\u{231a}\u{fe0e}",
    "\u{1f3c0}\u{fe0e}", "\u{644}\u{627}", "\u{644}\u{622}", "\u{1f468}\u{200d}\u{1f469}\u{200d}\u{1f467}",
    "\u{1f3f3}\u{fe0f}\u{200d}\u{1f308}", "\u{1100}\u{1161}\u{11a8}", "\u{e01}\u{e33}", "\u{915}\u{94d}\u{937}\u{93f}",
    "\u{263a}\u{fe0f}\u{263a}\u{fe0f}\u{263a}\u{fe0f}", "x\u{fe0f}", "\u{fe0f}", "\u{1f1e9}\u{1f1ea}\u{1f1e9}",
    "\u{5d0}\u{5dc}", "\u{2d4f}\u{2d7f}\u{2d4f}", "\u{a4fc}\u{a4fd}", "\u{1a15}\u{1a17}\u{200d}\u{1a10}",
];

const ZERO_WIDTH: &[&str] = &[
    "\u{200B}", "\u{FEFF}", "\u{200D}", "\u{00AD}", "e\u{301}", "a\u{308}\u{304}", "\u{336}",
    "\u{FEFF}\u{FEFF}", "\u{2060}",
];

const SPACES: &[&str] = &[
    " ", " ", " ", "  ", "\n", "\t", "\r\n", "\r", " \n ", "\u{A0}", "\u{2003}", "\u{3000}", "\u{2028}",
    "\u{c}", "\u{85}",
];

const CONTROL: &[&str] = &["\u{1}", "\u{0}", "\u{7f}", "\u{1b}[31m", "\u{8}", "\u{9b}"];

const ENTITIES: &[&str] = &[
    "&amp;", "&lt;", "&gt;", "&nbsp;", "&quot;", "&#65;", "&#x1F600;", "&#0;", "&#xD800;",
    "&#x110000;", "&bogus;", "&amp", "&lt", "&", "&#", "&#x", "&nbsp", "&copy;", "&NotEqualTilde;",
    "&#9999999999;", "&shy;", "&zwj;", "&#xFEFF;", "&#13;", "&#10;",
];

#[derive(Clone, Debug)]
pub struct TextMix {
    pub wide: bool,
    pub zero: bool,
    pub control: bool,
    pub entities: bool,
    pub long_words: bool,
    pub odd_space: bool,
}

impl TextMix {
    pub fn swarm(rng: &mut Rng) -> TextMix {
        TextMix {
            wide: rng.chance(1, 2),
            zero: rng.chance(1, 2),
            control: rng.chance(1, 4),
            entities: rng.chance(1, 2),
            long_words: rng.chance(1, 3),
            odd_space: rng.chance(1, 2),
        }
    }
    pub fn all() -> TextMix {
        TextMix {
            wide: true,
            zero: true,
            control: true,
            entities: true,
            long_words: true,
            odd_space: true,
        }
    }
}

pub fn gen_word(rng: &mut Rng, mix: &TextMix, out: &mut String) {
    let k = rng.below(100);
    if k < 55 {
        out.push_str(rng.pick(WORDS));
    } else if k < 65 && mix.wide {
        if rng.chance(1, 3) {
            // often glued to the end of a word, so that the sequence meets the
            // end of a line
            if rng.chance(1, 2) {
                let n = rng.urange(1, 12);
                for i in 0..n {
                    out.push((b'a' + (i % 26) as u8) as char);
                }
            }
            out.push_str(rng.pick(SEQUENCES));
        } else {
            out.push_str(rng.pick(WIDE));
        }
    } else if k < 73 && mix.zero {
        if rng.chance(1, 2) {
            out.push_str(rng.pick(WORDS));
        }
        out.push_str(rng.pick(ZERO_WIDTH));
        if rng.chance(1, 2) {
            out.push_str(rng.pick(WORDS));
        }
    } else if k < 77 && mix.control {
        out.push_str(rng.pick(CONTROL));
    } else if k < 87 && mix.entities {
        out.push_str(rng.pick(ENTITIES));
    } else if k < 92 && mix.long_words {
        let n = rng.urange(12, 90);
        let wide = mix.wide && rng.chance(1, 4);
        for i in 0..n {
            if wide && i % 3 == 0 {
                out.push('宽');
            } else {
                out.push((b'a' + (i % 26) as u8) as char);
            }
        }
    } else {
        out.push_str(rng.pick(WORDS));
    }
}

pub fn gen_text(rng: &mut Rng, mix: &TextMix, max_words: usize, out: &mut String) {
    let n = rng.urange(1, max_words.max(1));
    if rng.chance(1, 6) {
        out.push_str(rng.pick(SPACES));
    }
    for i in 0..n {
        if i > 0 {
            if mix.odd_space {
                out.push_str(rng.pick(SPACES));
            } else {
                out.push(' ');
            }
        }
        gen_word(rng, mix, out);
    }
    if rng.chance(1, 6) {
        out.push_str(rng.pick(SPACES));
    }
}

// ---------------------------------------------------------------- html

const NUMS: &[&str] = &[
    "0", "1", "2", "3", "4", "7", "10", "100", "1000", "65536", "1000000000", "4294967295",
    "4294967296", "9007199254740991", "9223372036854775806", "9223372036854775807",
    "9223372036854775808", "-9223372036854775808", "-9223372036854775807", "18446744073709551615",
    "18446744073709551616", "-1", "-2", "-100", "", " 3", "3 ", "+5", "1e3", "abc", "0x10", "٣",
    "99999999999999999999999999",
];

const SMALL_NUMS: &[&str] = &["0", "1", "2", "3", "4", "5", "9", "10", "98", "99", "-1", "-5", "-10"];

const INLINE_TAGS: &[&str] = &[
    "em", "i", "ins", "strong", "s", "del", "code", "span", "sup", "font", "b", "u", "small", "abbr",
    "mark", "q", "kbd", "custom-x", "nobr", "big", "tt",
];

const FOREIGN: &[&str] = &["svg", "math", "template", "select", "option", "textarea", "title", "noscript",
    "iframe", "object", "button", "form", "frameset", "plaintext", "xmp", "listing", "marquee", "ruby", "rt"];

/// Elements the HTML parser treats as "special" (scope checks walk the stack
/// of open elements, so deep nests of them cost the parser quadratic time).
pub const SPECIAL_TAGS: &[&str] = &[
    "address", "article", "aside", "blockquote", "button", "caption", "center", "dd", "details", "dir", "div", "dl",
    "dt", "fieldset", "figcaption", "figure", "footer", "form", "h1", "h2", "h3", "h4", "h5", "h6", "header",
    "hgroup", "li", "listing", "main", "marquee", "menu", "nav", "object", "ol", "p", "pre", "section", "summary",
    "table", "tbody", "td", "tfoot", "th", "thead", "tr", "ul", "xmp", "select", "option", "optgroup", "template", "rp",
    "rt",
];

/// Ordinary phrasing / formatting / unknown elements.
pub const PHRASING_TAGS: &[&str] = &[
    "a", "abbr", "b", "bdi", "bdo", "big", "cite", "code", "data", "del", "dfn", "em", "font", "i", "ins", "kbd",
    "label", "mark", "nobr", "q", "ruby", "s", "samp", "small", "span", "strike", "strong", "sub", "sup",
    "time", "tt", "u", "var", "output", "meter", "progress", "picture", "slot", "canvas", "audio", "video", "map",
    "custom-element", "o:p", "blink", "acronym",
];

/// Void / raw-text / oddly parsed elements (never nested, sprinkled as leaves).
pub const LEAF_TAGS: &[&str] = &[
    "br", "hr", "wbr", "img", "input", "area", "base", "col", "embed", "link", "meta", "param", "source", "track",
    "keygen", "bgsound", "basefont", "frame", "image", "isindex",
];

const GENERIC_ATTRS: &[(&str, &[&str])] = &[
    ("type", &["1", "a", "A", "i", "I", "disc", "circle", "text", "checkbox", "x"]),
    ("reversed", &[""]),
    ("value", &["1", "0", "-3", "7", "1000000", "9223372036854775807", "x"]),
    ("width", &["0", "1", "50%", "100", "100000", "-1", "auto"]),
    ("height", &["0", "10", "100%"]),
    ("align", &["left", "right", "center", "justify", "char"]),
    ("valign", &["top", "bottom"]),
    ("border", &["0", "1", "10"]),
    ("cellpadding", &["0", "4"]),
    ("cellspacing", &["0", "2"]),
    ("span", &["0", "1", "2", "1000", "65536"]),
    ("dir", &["rtl", "ltr", "auto"]),
    ("lang", &["en", "ar", "zh-Hant"]),
    ("title", &["a title", "宽 title", ""]),
    ("hidden", &["", "until-found"]),
    ("open", &[""]),
    ("checked", &[""]),
    ("disabled", &[""]),
    ("data-x", &["1", "{\"a\":1}"]),
    ("aria-hidden", &["true", "false"]),
    ("aria-label", &["label text"]),
    ("role", &["presentation", "list", "heading", "none"]),
    ("tabindex", &["0", "-1"]),
    ("contenteditable", &["true"]),
    ("rel", &["nofollow", "noopener noreferrer"]),
    ("target", &["_blank"]),
    ("download", &["file.txt"]),
    ("srcset", &["a.png 1x, b.png 2x"]),
    ("loading", &["lazy"]),
    ("scope", &["row", "col"]),
    ("headers", &["i0 i1"]),
    ("for", &["i0"]),
    ("name", &["n", "anchor", ""]),
    ("summary", &["a table"]),
    ("nowrap", &[""]),
    ("bgcolor", &["#fff", "red", "#12"]),
    ("color", &["blue", "#123456"]),
    ("face", &["serif"]),
    ("size", &["1", "+2", "7"]),
    ("start", &["0", "5", "-2", "99"]),
    ("rowspan", &["0", "2", "1000"]),
    ("colspan", &["1", "2", "3"]),
    ("xmlns", &["http://www.w3.org/1999/xhtml"]),
];

/// Append one plausible generic attribute.
pub fn gen_generic_attr(rng: &mut Rng, out: &mut String) {
    let (name, values) = rng.pick(GENERIC_ATTRS);
    let v = rng.pick(values);
    if v.is_empty() && rng.chance(1, 2) {
        out.push_str(&format!(" {}", name));
    } else if v.contains(' ') || v.contains('"') || rng.chance(1, 2) {
        out.push_str(&format!(" {}='{}'", name, v.replace('\'', "")));
    } else {
        out.push_str(&format!(" {}={}", name, v));
    }
}

pub const CLASSES: &[&str] = &["c0", "c1", "c2", "c3"];
pub const IDS: &[&str] = &["i0", "i1", "i2", "i3", "i4"];

#[derive(Clone, Debug)]
pub struct DocParams {
    pub target_len: usize,
    pub max_depth: usize,
    pub mix: TextMix,
    pub tables: bool,
    pub lists: bool,
    pub pre: bool,
    pub links: bool,
    pub attrs: bool,
    pub style_elems: bool,
    pub foreign: bool,
    pub sloppy: bool,
    pub huge_nums: bool,
    pub comments: bool,
}

impl DocParams {
    pub fn swarm(rng: &mut Rng, target_len: usize) -> DocParams {
        DocParams {
            target_len,
            max_depth: rng.pick(&[2usize, 3, 4, 6, 8, 12]),
            mix: TextMix::swarm(rng),
            tables: rng.chance(2, 3),
            lists: rng.chance(2, 3),
            pre: rng.chance(1, 2),
            links: rng.chance(2, 3),
            attrs: rng.chance(1, 2),
            style_elems: rng.chance(1, 4),
            foreign: rng.chance(1, 4),
            sloppy: rng.chance(1, 3),
            huge_nums: rng.chance(1, 4),
            comments: rng.chance(1, 3),
        }
    }
}

pub struct DocGen<'a> {
    pub rng: &'a mut Rng,
    pub p: DocParams,
    pub out: String,
}

impl<'a> DocGen<'a> {
    fn full(&self) -> bool {
        self.out.len() >= self.p.target_len
    }

    fn num(&mut self) -> &'static str {
        if self.p.huge_nums && self.rng.chance(1, 2) {
            self.rng.pick(NUMS)
        } else {
            self.rng.pick(SMALL_NUMS)
        }
    }

    fn attrs(&mut self) {
        if !self.p.attrs {
            return;
        }
        if self.rng.chance(1, 4) {
            let c = self.rng.pick(CLASSES);
            if self.rng.chance(1, 5) {
                let c2 = self.rng.pick(CLASSES);
                self.out.push_str(&format!(" class=\"{} {}\"", c, c2));
            } else {
                self.out.push_str(&format!(" class={}", c));
            }
        }
        if self.rng.chance(1, 6) {
            let i = self.rng.pick(IDS);
            self.out.push_str(&format!(" id=\"{}\"", i));
        }
        if self.rng.chance(1, 10) {
            let mut s = String::new();
            gen_decls(self.rng, &mut s, 3, false);
            self.out.push_str(&format!(" style=\"{}\"", s.replace('"', "'")));
        }
        if self.rng.chance(1, 20) {
            let col = gen_colour(self.rng);
            let which = if self.rng.chance(1, 2) { "color" } else { "bgcolor" };
            self.out.push_str(&format!(" {}=\"{}\"", which, col));
        }
        // any other attribute a renderer might one day look at
        if self.rng.chance(1, 6) {
            for _ in 0..self.rng.urange(1, 3) {
                gen_generic_attr(self.rng, &mut self.out);
            }
        }
    }

    /// An element with nothing in it (any element, anywhere).
    fn empty_element(&mut self) {
        let tag = match self.rng.below(4) {
            0 => self.rng.pick(SPECIAL_TAGS),
            1 => self.rng.pick(&["sup", "a", "em", "strong", "s", "code", "pre", "span", "li", "td", "p", "div"]),
            _ => self.rng.pick(PHRASING_TAGS),
        };
        self.open(tag);
        if self.rng.chance(1, 4) {
            self.out.push_str(self.rng.pick(&[" ", "\n", "<!---->", "&#8203;"]));
        }
        self.close(tag);
    }

    fn open(&mut self, tag: &str) {
        self.out.push('<');
        self.out.push_str(tag);
        self.attrs();
        self.out.push('>');
    }

    fn close(&mut self, tag: &str) {
        if self.p.sloppy && self.rng.chance(1, 8) {
            // omit, or close something else
            if self.rng.chance(1, 2) {
                let t = self.rng.pick(&["p", "div", "em", "td", "table", "li", "a", "span", "b"]);
                self.out.push_str(&format!("</{}>", t));
            }
            return;
        }
        self.out.push_str("</");
        self.out.push_str(tag);
        self.out.push('>');
    }

    fn comment(&mut self) {
        if self.p.comments && self.rng.chance(1, 8) {
            let k = self.rng.below(6);
            match k {
                0 => self.out.push_str("<!-- c -->"),
                1 => self.out.push_str("<!---->"),
                2 => self.out.push_str("<!-- <p>not</p> -- x -->"),
                3 => self.out.push_str("<!-->"),
                4 => self.out.push_str("<?pi x?>"),
                _ => self.out.push_str("<![CDATA[cd]]>"),
            }
        }
    }

    fn text(&mut self, max_words: usize) {
        let mix = self.p.mix.clone();
        gen_text(self.rng, &mix, max_words, &mut self.out);
    }

    pub fn inline(&mut self, depth: usize) {
        let n = self.rng.urange(1, 4);
        for _ in 0..n {
            if self.full() {
                return;
            }
            self.comment();
            if self.rng.chance(1, 25) {
                self.empty_element();
            }
            let k = self.rng.below(100);
            if k < 45 || depth >= self.p.max_depth {
                self.text(8);
            } else if k < 70 {
                let tag = if self.rng.chance(1, 4) {
                    self.rng.pick(PHRASING_TAGS)
                } else {
                    self.rng.pick(INLINE_TAGS)
                };
                self.open(tag);
                self.inline(depth + 1);
                self.close(tag);
            } else if k < 80 && self.p.links {
                let kind = self.rng.below(6);
                match kind {
                    0 => self.out.push_str("<a href=\"http://example.com/\""),
                    1 => self.out.push_str("<a href=\"/a/very/long/path/that/does/not/fit/in/narrow/widths/index.html?x=1&amp;y=2\""),
                    2 => self.out.push_str("<a href=\"\""),
                    3 => self.out.push_str("<a name=\"anchor\""),
                    4 => self.out.push_str("<a href=\"u\nrl\" name=n"),
                    _ => self.out.push_str("<a href=\"宽宽://宽.example/宽\""),
                }
                self.attrs();
                self.out.push('>');
                if !self.rng.chance(1, 8) {
                    self.inline(depth + 1);
                }
                self.close("a");
            } else if k < 86 {
                let k2 = self.rng.below(5);
                match k2 {
                    0 => self.out.push_str("<img src=\"a.png\" alt=\"alt text\">"),
                    1 => self.out.push_str("<img src=\"a.png\">"),
                    2 => self.out.push_str("<img alt=\"only alt\">"),
                    3 => self.out.push_str("<img src=\"宽.png\" alt=\"宽 alt 😀\">"),
                    _ => self.out.push_str("<img src=x alt=\"a\tb\nc\">"),
                }
            } else if k < 92 {
                if self.rng.chance(1, 5) {
                    let tag = self.rng.pick(LEAF_TAGS);
                    self.open(tag);
                } else {
                    self.out.push_str(self.rng.pick(&["<br>", "<br/>", "<br><br>", "<wbr>", "<hr>"]));
                }
            } else if k < 96 {
                // superscript digits / text
                self.out.push_str("<sup>");
                if self.rng.chance(1, 2) {
                    self.out.push_str(self.rng.pick(&["1", "23", "0", "", "٣", "1a"]));
                } else {
                    self.text(2);
                }
                self.out.push_str("</sup>");
            } else if self.p.foreign {
                let tag = self.rng.pick(FOREIGN);
                self.open(tag);
                self.text(3);
                if self.rng.chance(1, 2) {
                    self.inline(depth + 1);
                }
                self.close(tag);
            } else {
                self.text(4);
            }
        }
    }

    fn table(&mut self, depth: usize) {
        self.open("table");
        if self.rng.chance(1, 6) {
            self.out.push_str("<caption>");
            self.inline(depth + 1);
            self.out.push_str("</caption>");
        }
        let sections = self.rng.urange(1, 2);
        for s in 0..sections {
            let sec = if self.rng.chance(1, 3) {
                Some(self.rng.pick(&["thead", "tbody", "tfoot"]))
            } else {
                None
            };
            if let Some(t) = sec {
                self.open(t);
            }
            let rows = self.rng.urange(if s == 0 { 0 } else { 1 }, 4);
            let cols = self.rng.urange(1, 5);
            for _ in 0..rows {
                if self.full() {
                    break;
                }
                if !(self.p.sloppy && self.rng.chance(1, 10)) {
                    self.open("tr");
                }
                let c = if self.rng.chance(1, 4) {
                    self.rng.urange(0, 6)
                } else {
                    cols
                };
                for _ in 0..c {
                    if self.rng.chance(1, 30) {
                        // something which is not a cell, where a cell belongs
                        self.empty_element();
                    }
                    let tag = if self.rng.chance(1, 5) { "th" } else { "td" };
                    self.out.push('<');
                    self.out.push_str(tag);
                    if self.rng.chance(1, 4) {
                        let n = self.num();
                        self.out.push_str(&format!(" colspan=\"{}\"", n));
                    }
                    if self.rng.chance(1, 12) {
                        let n = self.num();
                        self.out.push_str(&format!(" rowspan={}", if n.is_empty() { "1" } else { n.trim() }));
                    }
                    self.attrs();
                    self.out.push('>');
                    let k = self.rng.below(10);
                    if k < 1 {
                        // empty cell
                    } else if k < 7 || depth + 1 >= self.p.max_depth {
                        self.inline(depth + 1);
                    } else {
                        self.blocks(depth + 1, 2);
                    }
                    if !self.rng.chance(1, 4) {
                        self.close(tag);
                    }
                }
                if !self.rng.chance(1, 4) {
                    self.close("tr");
                }
            }
            if let Some(t) = sec {
                self.close(t);
            }
        }
        if self.p.sloppy && self.rng.chance(1, 6) {
            // content directly in table → foster parenting
            self.text(3);
            self.out.push_str("<p>fostered</p>");
        }
        self.close("table");
    }

    fn list(&mut self, depth: usize) {
        let ordered = self.rng.chance(1, 2);
        let tag = if ordered { "ol" } else { "ul" };
        self.out.push('<');
        self.out.push_str(tag);
        if ordered && self.rng.chance(1, 2) {
            let n = self.num();
            self.out.push_str(&format!(" start=\"{}\"", n));
        }
        self.attrs();
        self.out.push('>');
        let n = self.rng.urange(0, 5);
        for _ in 0..n {
            if self.full() {
                break;
            }
            if self.p.sloppy && self.rng.chance(1, 8) {
                // non-li child
                match self.rng.below(5) {
                    0 => {
                        self.text(2);
                        self.out.push_str("<span>stray</span>");
                    }
                    1 => self.empty_element(),
                    2 => self.out.push_str("<!-- c -->"),
                    3 => self.inline(depth + 1),
                    _ => {
                        let t = self.rng.pick(PHRASING_TAGS);
                        self.open(t);
                        self.text(2);
                        self.close(t);
                    }
                }
                continue;
            }
            self.open("li");
            let k = self.rng.below(10);
            if k < 6 || depth + 1 >= self.p.max_depth {
                self.inline(depth + 1);
            } else {
                self.blocks(depth + 1, 2);
            }
            if !self.rng.chance(1, 3) {
                self.close("li");
            }
        }
        self.close(tag);
    }

    fn pre(&mut self, depth: usize) {
        self.open("pre");
        let lines = self.rng.urange(1, 5);
        for i in 0..lines {
            if i > 0 {
                self.out.push_str(self.rng.pick(&["\n", "\r\n", "\n\n", "\r"]));
            }
            let parts = self.rng.urange(0, 5);
            for _ in 0..parts {
                let k = self.rng.below(10);
                if k < 2 {
                    self.out.push('\t');
                } else if k < 4 {
                    let n = self.rng.urange(1, 12);
                    for _ in 0..n {
                        self.out.push(' ');
                    }
                } else if k < 5 && depth < self.p.max_depth {
                    let tag = self.rng.pick(&["span", "em", "b", "code", "a"]);
                    self.open(tag);
                    let mix = self.p.mix.clone();
                    gen_word(self.rng, &mix, &mut self.out);
                    self.out.push('\t');
                    self.close(tag);
                } else if k < 6 {
                    self.out.push_str("<br>");
                } else {
                    let mix = self.p.mix.clone();
                    gen_word(self.rng, &mix, &mut self.out);
                }
            }
        }
        self.close("pre");
    }

    pub fn blocks(&mut self, depth: usize, max: usize) {
        let n = self.rng.urange(1, max.max(1));
        for _ in 0..n {
            if self.full() {
                return;
            }
            self.comment();
            if self.rng.chance(1, 25) {
                self.empty_element();
            }
            let k = self.rng.below(100);
            if depth >= self.p.max_depth || k < 30 {
                let tag = self.rng.pick(&["p", "p", "p", "div", "h1", "h2", "h3", "h4", "h5", "h6"]);
                self.open(tag);
                self.inline(depth + 1);
                self.close(tag);
            } else if k < 40 {
                self.inline(depth);
            } else if k < 55 && self.p.lists {
                self.list(depth + 1);
            } else if k < 70 && self.p.tables {
                self.table(depth + 1);
            } else if k < 78 && self.p.pre {
                self.pre(depth + 1);
            } else if k < 86 {
                let tag = if self.rng.chance(1, 4) {
                    self.rng.pick(SPECIAL_TAGS)
                } else {
                    self.rng.pick(&["blockquote", "div", "div", "section", "article", "center", "address"])
                };
                self.open(tag);
                self.blocks(depth + 1, 3);
                self.close(tag);
            } else if k < 91 {
                self.open("dl");
                let n = self.rng.urange(0, 4);
                for _ in 0..n {
                    let t = if self.rng.chance(1, 2) { "dt" } else { "dd" };
                    self.open(t);
                    if self.rng.chance(1, 4) && depth + 1 < self.p.max_depth {
                        self.blocks(depth + 2, 2);
                    } else {
                        self.inline(depth + 2);
                    }
                    self.close(t);
                }
                if self.p.sloppy && self.rng.chance(1, 4) {
                    self.out.push_str("<p>stray in dl</p>");
                }
                self.close("dl");
            } else if k < 95 && self.p.style_elems {
                self.out.push_str("<style>");
                let mut css = String::new();
                gen_sheet(self.rng, &mut css, 4, self.p.sloppy);
                self.out.push_str(&css.replace("</", "<\\/"));
                self.out.push_str("</style>");
            } else if k < 97 {
                self.out.push_str(self.rng.pick(&[
                    "<script>var a = '<p>x</p>'; if (a < b) {}</script>",
                    "<script>//</scr",
                    "<hr>",
                    "<meta charset=utf-8>",
                    "<link rel=stylesheet href=x.css>",
                    "<head><title>T</title></head>",
                    "<body class=c1>",
                    "</body>",
                    "</html>",
                    "<html lang=en>",
                ]));
            } else {
                self.open("div");
                self.close("div");
            }
        }
    }
}

/// Generate a whole document of roughly `target_len` bytes.
pub fn gen_doc(rng: &mut Rng, p: DocParams) -> Vec<u8> {
    let mut g = DocGen {
        rng,
        p,
        out: String::new(),
    };
    let pre = g.rng.below(12);
    match pre {
        0 => g.out.push_str("<!DOCTYPE html>"),
        1 => g.out.push_str("<!DOCTYPE html><html><head><title>t</title></head><body>"),
        2 => g.out.push('\u{FEFF}'),
        3 => g.out.push_str("\u{FEFF}<!doctype html>\n"),
        4 => g.out.push_str("<html><body>"),
        5 => {
            // what a page says about itself in its head: character set,
            // content type, base, viewport, language
            let meta = g.rng.pick(&[
                "<meta charset=utf-8>",
                "<meta charset=\"iso-8859-1\">",
                "<meta charset=>",
                "<meta charset=",
                "<meta http-equiv=\"Content-Type\" content=\"text/html; charset=iso-8859-1\">",
                "<meta http-equiv=Content-Type content=\"text/html; charset=\">",
                "<meta http-equiv=refresh content=\"0; url=x\">",
                "<?xml version=\"1.0\" encoding=\"windows-1252\"?>",
                "<base href=\"http://example.com/\"><meta name=viewport content=\"width=device-width\">",
            ]);
            let pad = g.rng.pick(&[0usize, 0, 0, 990, 1000, 1003, 1010, 4080]);
            g.out.push_str("<html lang=en><head>");
            if pad > 0 {
                g.out.push_str("<!--");
                for _ in 0..pad {
                    g.out.push('-' as char);
                }
                g.out.truncate(g.out.len() - 1);
                g.out.push_str("x-->");
            }
            g.out.push_str(meta);
            if !meta.ends_with('=') {
                g.out.push_str("</head><body>");
            }
        }
        _ => {}
    }
    let mut guard = 0;
    while !g.full() && guard < 100_000 {
        g.blocks(0, 4);
        guard += 1;
        if g.p.target_len <= 64 {
            break;
        }
    }
    let mut out = g.out.into_bytes();
    if out.len() > g.p.target_len * 2 + 256 {
        // keep sizes in class; cutting inside markup is fine (it is one more malformed input)
        out.truncate(g.p.target_len * 2 + 256);
    }
    out
}

/// A document assembled from the harvested seed snippets (realistic,
/// feature-rich markup): concatenated, wrapped, spliced into each other, with
/// numbers and words swapped for the generator's odd ones.
pub fn gen_doc_from_seeds(rng: &mut Rng, target_len: usize, mix: &TextMix, huge_nums: bool) -> Vec<u8> {
    use crate::seeds::SEEDS;
    let mut out = String::new();
    let mut guard = 0;
    while out.len() < target_len.max(1) && guard < 400 {
        guard += 1;
        let seed = rng.pick(SEEDS);
        let mut piece = seed.to_string();
        // swap some numeric attribute values
        if rng.chance(1, 3) {
            for attr in ["colspan=\"", "start=\"", "rowspan=\""] {
                if let Some(i) = piece.find(attr) {
                    let vstart = i + attr.len();
                    if let Some(len) = piece[vstart..].find('"') {
                        let n = if huge_nums { rng.pick(NUMS) } else { rng.pick(SMALL_NUMS) };
                        piece.replace_range(vstart..vstart + len, n);
                    }
                }
            }
        }
        // swap a word of text for one of the generator's
        if rng.chance(1, 3) {
            if let Some(i) = piece.find('>') {
                let mut w = String::new();
                gen_word(rng, mix, &mut w);
                let at = i + 1;
                if piece.is_char_boundary(at) {
                    piece.insert_str(at, &w);
                }
            }
        }
        match rng.below(8) {
            0 => {
                let tag = rng.pick(&["div", "blockquote", "li", "td", "pre", "ul", "ol", "table", "center", "dd", "h2", "a", "em", "s", "sup"]);
                out.push_str(&format!("<{}>{}</{}>", tag, piece, tag));
            }
            1 => {
                // splice into the middle of what we have, at a tag boundary
                let cands: Vec<usize> = out.match_indices('<').map(|(i, _)| i).collect();
                if cands.is_empty() {
                    out.push_str(&piece);
                } else {
                    let at = rng.pick(&cands);
                    out.insert_str(at, &piece);
                }
            }
            2 => {
                out.push_str("<table><tr><td>");
                out.push_str(&piece);
                out.push_str("</td><td>");
                out.push_str(rng.pick(SEEDS));
                out.push_str("</td></tr></table>");
            }
            _ => out.push_str(&piece),
        }
        if target_len <= 64 {
            break;
        }
    }
    let mut bytes = out.into_bytes();
    if bytes.len() > target_len * 2 + 2048 {
        bytes.truncate(target_len * 2 + 2048);
    }
    bytes
}

// ---------------------------------------------------------------- micro documents

/// Small-scope documents: one to four *atoms* - minimal constructs, each with
/// the least content that still exercises it (nothing, one blank, one
/// character, one wide character, an image with a blank alt text ...) - and
/// nothing else.  Many defects need a document in which *only* such a
/// construct is present (a table that renders borders and no text, a document
/// whose only element is an empty anchor with an id); the general grammar
/// produces these conjunctions too rarely.
pub fn gen_micro_doc(rng: &mut Rng) -> Vec<u8> {
    fn leaf(rng: &mut Rng, out: &mut String) {
        const LEAVES: &[&str] = &[
            "", "", " ", "a", "ab", "a b", "\u{5bbd}", "a\u{5bbd}", "\u{a0}", "&nbsp;", "\u{200b}", "\t", "\n", "\r\n", "\u{301}", "\u{1f44d}\u{1f3fd}",
            "x\u{263a}\u{fe0f}", "<br>", "<br><br>", "<hr>", "<wbr>", "<img src=\"spacer.gif\" alt=\" \">", "<img alt=\"\">", "<img src=s>",
            "<img alt=\"\u{5bbd}\">", "<img alt=a title=t>", "<a id=\"e\"></a>", "<a name=n></a>", "<a href=\"u\"></a>", "<a href=u>l</a>",
            "<a href=\"\">x</a>", "<span id=s></span>", "<i></i>", "<b> </b>", "<s>x</s>", "<sup></sup>", "<sup>2</sup>", "<code>c</code>",
            "<em id=m>e</em>", "<!-- c -->", "&amp;", "&#0;", "&#x110000;", "<input>", "<svg></svg>", "<template>t</template>", "<script>s</script>",
            "<style>p{color:red;}</style>", "<font color=red>f</font>", "aaaaaaaaaaaaaaaaaaaaaaaaaaaaaaaaaaaaaaaa", "one two three four five six seven",
        ];
        out.push_str(rng.pick(LEAVES));
    }
    fn attrs(rng: &mut Rng, out: &mut String) {
        if rng.chance(1, 5) {
            out.push_str(rng.pick(&[" id=i", " id=\"\"", " class=c0", " style=\"display:none\"", " style=\"white-space:pre\"", " hidden", " dir=rtl", " align=center", " width=0"]));
        }
    }
    fn atom(rng: &mut Rng, out: &mut String, depth: u32) {
        let inner = |rng: &mut Rng, out: &mut String| {
            if depth < 3 && rng.chance(1, 3) {
                atom(rng, out, depth + 1);
                if rng.chance(1, 3) {
                    atom(rng, out, depth + 1);
                }
            } else {
                leaf(rng, out);
                if rng.chance(1, 4) {
                    leaf(rng, out);
                }
            }
        };
        let close = !rng.chance(1, 6);
        match rng.below(22) {
            0..=4 => {
                // table: 1-3 rows of 1-3 cells with minimal content
                out.push_str("<table");
                attrs(rng, out);
                out.push('>');
                if rng.chance(1, 8) {
                    out.push_str("<caption>");
                    inner(rng, out);
                    out.push_str("</caption>");
                }
                let rows = rng.urange(1, 3);
                let cols = rng.urange(1, 3);
                for _ in 0..rows {
                    out.push_str("<tr>");
                    let c = if rng.chance(1, 5) { rng.urange(0, 4) } else { cols };
                    for _ in 0..c {
                        out.push_str(if rng.chance(1, 5) { "<th" } else { "<td" });
                        if rng.chance(1, 6) {
                            out.push_str(rng.pick(&[" colspan=2", " colspan=0", " colspan=3", " rowspan=2", " colspan=1000"]));
                        }
                        attrs(rng, out);
                        out.push('>');
                        inner(rng, out);
                        if close {
                            out.push_str("</td>");
                        }
                    }
                    if close {
                        out.push_str("</tr>");
                    }
                }
                if close {
                    out.push_str("</table>");
                }
            }
            5 | 6 => {
                let ordered = rng.chance(1, 2);
                out.push_str(if ordered { "<ol" } else { "<ul" });
                if ordered && rng.chance(1, 2) {
                    out.push_str(rng.pick(&[" start=0", " start=9", " start=99", " start=-1", " start=9223372036854775807", " reversed"]));
                }
                attrs(rng, out);
                out.push('>');
                for _ in 0..rng.urange(0, 3) {
                    out.push_str("<li>");
                    inner(rng, out);
                    if close {
                        out.push_str("</li>");
                    }
                }
                if close {
                    out.push_str(if ordered { "</ol>" } else { "</ul>" });
                }
            }
            7..=12 => {
                let tag = rng.pick(&["p", "div", "blockquote", "h1", "h3", "h6", "pre", "dl", "dt", "dd", "center", "details", "summary", "figure", "body", "html"]);
                out.push('<');
                out.push_str(tag);
                attrs(rng, out);
                out.push('>');
                inner(rng, out);
                if close {
                    out.push_str("</");
                    out.push_str(tag);
                    out.push('>');
                }
            }
            13 | 14 => {
                let tag = rng.pick(&["a href=\"http://h/\"", "a href=u id=k", "a name=n", "span id=q", "em", "strong", "s", "del", "ins", "code", "sup", "font color=\"#f00\"", "u"]);
                out.push('<');
                out.push_str(tag);
                out.push('>');
                inner(rng, out);
                if close {
                    out.push_str("</");
                    out.push_str(tag.split(' ').next().unwrap());
                    out.push('>');
                }
            }
            _ => leaf(rng, out),
        }
    }
    let mut out = String::new();
    if rng.chance(1, 12) {
        out.push_str(rng.pick(&["\u{feff}", "<!DOCTYPE html>", "<html><body id=b>", "<body id=\"page\">", "<head><title>t</title></head>"]));
    }
    for _ in 0..rng.urange(1, 4) {
        atom(rng, &mut out, 0);
    }
    out.into_bytes()
}

// ---------------------------------------------------------------- css

/// `#` followed by hex digits, CSS escapes and multi-byte characters in any
/// mixture: after unescaping, values of 3, 4, 6 or 8 *bytes* whose characters
/// do not sit on the byte positions a hex-colour parser slices at.
fn gen_hash_colour(rng: &mut Rng) -> String {
    const PIECES: &[&str] = &[
        "0", "1", "9", "a", "c", "F", "f", "g", "-", "_", "\\e9 ", "\\e9", "\\41 ", "\\46", "\\20AC ", "\\20ac", "\\1F600 ", "\\0 ",
        "\\d800 ", "\\110000 ", "\\\u{e9}", "\\g", "\u{e9}", "\u{20ac}", "\u{5bbd}", "\u{1f600}", "\u{301}", "\u{a0}",
    ];
    let mut s = String::from(if rng.chance(1, 12) { "" } else { "#" });
    for _ in 0..rng.urange(1, 8) {
        s.push_str(rng.pick(PIECES));
    }
    s
}

pub fn gen_colour(rng: &mut Rng) -> String {
    let k = rng.below(16);
    match k {
        14 | 15 => gen_hash_colour(rng),
        12 => rng
            .pick(&[
                "12345\u{e9}", "bleu fonc\u{e9}", "a\u{20ac}\u{20ac}", "\u{5bbd}\u{5bbd}\u{5bbd}", "#12345\u{e9}", "\u{ff}\u{ff}\u{ff}\u{ff}\u{ff}\u{ff}", "", "#",
                "00aabb", "0a\u{e9}bcd", "#\u{e9}", "1234\u{1f600}", "zzzzzz", "12345", "1234567", "  fff  ", "#ggg",
            ])
            .to_string(),
        13 => rng
            .pick(&[
                "aqua", "black", "fuchsia", "gray", "green", "lime", "maroon", "navy", "olive", "orange", "purple",
                "silver", "teal", "white", "yellow", "RED", "#ABC", "rgb(255,0,0)", "rgb( 1 , 2 , 3 )", "rgb(1.5, 2, 3)",
                "rgb(-1, 2, 3)", "rgb(1, 2)", "rgb(1, 2, 3, 4)", "rgb()", "rgb(1e9, 0, 0)", "hsl(1, 2%, 3%)",
            ])
            .to_string(),
        0 => "red".into(),
        1 => "#fff".into(),
        2 => format!("#{:06x}", rng.below(1 << 24)),
        3 => format!("#{:06X}", rng.below(1 << 24)),
        4 => format!("rgb({}, {}, {})", rng.below(300), rng.below(256), rng.below(256)),
        5 => "rgb(100% 0% 0%)".into(),
        6 => "rgba(1,2,3,0.5)".into(),
        7 => "#12".into(),
        8 => "#1234567".into(),
        9 => "inherit".into(),
        10 => "blue".into(),
        _ => "transparent".into(),
    }
}

/// A quoted CSS string built from escapes, ASCII and multi-byte pieces.
pub fn gen_css_string(rng: &mut Rng) -> String {
    const PIECES: &[&str] = &[
        "a", "b c", "[", "]", "*", "\\41", "\\41 ", "\\2022 ", "\\0000a0", "\\d800", "\\110000 ", "\\0 ", "\\ffffff",
        "\\\n", "\\\"", "\\'", "宽", "→", "«", "é", "😀", "\\", "\\g", "\\ ", "\\bb", "\\2192", "\\4d", "\n", "\t", "/*", "*/", ";", "}",
    ];
    let q = if rng.chance(1, 2) { '"' } else { '\'' };
    let mut s = String::new();
    s.push(q);
    for _ in 0..rng.urange(0, 5) {
        let p = rng.pick(PIECES);
        if p.contains(q) {
            continue;
        }
        s.push_str(p);
    }
    if !rng.chance(1, 10) {
        s.push(q);
    }
    s
}

pub fn gen_decls(rng: &mut Rng, out: &mut String, max: usize, sloppy: bool) {
    let n = rng.urange(0, max);
    for i in 0..n {
        let k = rng.below(16);
        let d = match k {
            0 | 1 => format!("color: {}", gen_colour(rng)),
            2 => format!("background-color: {}", gen_colour(rng)),
            3 => format!("background: {} url(x.png) no-repeat", gen_colour(rng)),
            4 => "display: none".into(),
            5 => format!("display: {}", rng.pick(&["block", "inline", "NONE", "none !important", "x-raw-dom"])),
            6 => format!("white-space: {}", rng.pick(&["pre", "pre-wrap", "normal", "nowrap", "PRE"])),
            7 => format!("height: {}", rng.pick(&["0", "0px", "0.0em", "10px", "auto", "-0", "1e3px", "0%"])),
            8 => format!("max-height: {}", rng.pick(&["0", "0px", "100px", "auto"])),
            9 => format!("overflow: {}", rng.pick(&["hidden", "visible", "scroll", "hidden auto"])),
            10 => format!("overflow-y: {}", rng.pick(&["hidden", "auto"])),
            11 => {
                if rng.chance(1, 2) {
                    format!("content: {}", gen_css_string(rng))
                } else {
                    format!("content: {}", rng.pick(&["\"[\"", "']'", "\"a\\\"b\"", "\"宽\"", "\"\"", "none", "\"x\ny\"", "\"\\41 \"", "attr(x)"]))
                }
            }
            12 => "margin: 0 auto".into(),
            13 => {
                if rng.chance(1, 2) {
                    format!("font-family: {}, serif", gen_css_string(rng))
                } else {
                    "font: 12px/1.5 \"A B\", serif".into()
                }
            }
            14 => format!("COLOR: {} !important", gen_colour(rng)),
            _ => "x-unknown: foo(bar [baz] {q})".into(),
        };
        out.push_str(&d);
        if i + 1 < n || rng.chance(1, 2) {
            out.push_str(rng.pick(&[";", "; ", ";\n", " ;", ";;"]));
        }
        if sloppy && rng.chance(1, 10) {
            out.push_str(rng.pick(&["}", "{", "\"", "/*", "\\", "@", "(", ";;;", "!important"]));
        }
    }
}

pub fn gen_compound(rng: &mut Rng, out: &mut String) {
    let k = rng.below(12);
    match k {
        0..=3 => out.push_str(rng.pick(&["p", "div", "span", "td", "li", "em", "a", "table", "tr", "ul", "h1", "x", "body"])),
        4 | 5 => {
            out.push('.');
            out.push_str(rng.pick(CLASSES));
        }
        6 => {
            out.push('#');
            out.push_str(rng.pick(IDS));
        }
        7 => out.push('*'),
        8 => {
            out.push_str(rng.pick(&["p", "div", "span", "td", "li"]));
            out.push('.');
            out.push_str(rng.pick(CLASSES));
        }
        9 => {
            out.push_str(rng.pick(&["li", "td", "p", "tr", "div", "span"]));
            let arg = match rng.below(8) {
                0 => "odd".to_string(),
                1 => "even".to_string(),
                2 => format!("{}", rng.range(0, 6)),
                3 => format!("{}n+{}", rng.range(0, 5), rng.range(0, 5)),
                4 => format!("-{}n+{}", rng.range(0, 3), rng.range(0, 6)),
                5 => format!("{}n-{}", rng.range(0, 5), rng.range(0, 5)),
                6 => "n".to_string(),
                _ => rng
                    .pick(&[
                        "2147483647n+2147483647",
                        "2147483648n+1",
                        "n-2147483647",
                        "-2147483647n-2147483647",
                        "n+2147483648",
                        "99999999999999999999n+1",
                        "4294967297",
                        "-n+3",
                        "+3n - 2",
                        "0n+0",
                    ])
                    .to_string(),
            };
            out.push_str(&format!(":nth-child({})", arg));
        }
        10 => {
            out.push('.');
            out.push_str(rng.pick(CLASSES));
            out.push('.');
            out.push_str(rng.pick(CLASSES));
        }
        _ => {
            // pseudo-elements on any kind of element, table parts included
            // (their content is inserted into the first/last cell)
            out.push_str(rng.pick(&[
                "p", "em", "strong", "code", "dt", "a", "li", "table", "tbody", "thead", "tr", "td", "th", "ul", "ol", "div",
                "span", "h1", "pre", "blockquote", "dl", "dd", "img", "br", "sup", "body", "*", ".c0", "#i1",
            ]));
            out.push_str(rng.pick(&["::before", "::after", "::before", "::after", ":hover", ":first-child"]));
        }
    }
}

pub fn gen_selector(rng: &mut Rng, out: &mut String, max_steps: usize) {
    let n = rng.urange(1, max_steps.max(1));
    for i in 0..n {
        if i > 0 {
            out.push_str(rng.pick(&[" ", " ", " > ", ">", "  ", " + ", " ~ "]));
        }
        gen_compound(rng, out);
    }
}

/// A compound selector from the grammar the library supports.
pub fn gen_valid_compound(rng: &mut Rng, out: &mut String) {
    const TAGS: &[&str] = &[
        "p", "div", "span", "td", "th", "tr", "li", "em", "a", "table", "tbody", "thead", "ul", "ol", "h1", "h2", "pre",
        "blockquote", "dl", "dt", "dd", "strong", "code", "s", "sup", "img", "body", "x", "font", "b", "center",
    ];
    match rng.below(10) {
        0..=2 => out.push_str(rng.pick(TAGS)),
        3 | 4 => {
            out.push('.');
            out.push_str(rng.pick(CLASSES));
        }
        5 => {
            out.push('#');
            out.push_str(rng.pick(IDS));
        }
        6 => out.push('*'),
        7 => {
            out.push_str(rng.pick(TAGS));
            out.push('.');
            out.push_str(rng.pick(CLASSES));
        }
        8 => {
            if rng.chance(1, 2) {
                out.push_str(rng.pick(TAGS));
            }
            let arg = match rng.below(7) {
                0 => "odd".to_string(),
                1 => "even".to_string(),
                2 => format!("{}", rng.range(0, 6)),
                3 => format!("{}n+{}", rng.range(0, 5), rng.range(0, 5)),
                4 => format!("-{}n+{}", rng.range(0, 3), rng.range(0, 6)),
                5 => format!("{}n-{}", rng.range(0, 5), rng.range(0, 5)),
                _ => "n".to_string(),
            };
            out.push_str(&format!(":nth-child({})", arg));
        }
        _ => {
            out.push('.');
            out.push_str(rng.pick(CLASSES));
            out.push('.');
            out.push_str(rng.pick(CLASSES));
        }
    }
}

/// A rule the library's CSS parser accepts and applies: supported selector
/// grammar only, optional pseudo-element at the very end, every declaration
/// terminated by ';' (a rule whose last declaration lacks it is dropped).
pub fn gen_valid_rule(rng: &mut Rng, out: &mut String) {
    let sels = rng.urange(1, 2);
    let mut pseudo = false;
    for i in 0..sels {
        if i > 0 {
            out.push_str(", ");
        }
        let steps = rng.urange(1, 4);
        for k in 0..steps {
            if k > 0 {
                out.push_str(rng.pick(&[" ", " ", " > "]));
            }
            gen_valid_compound(rng, out);
        }
        if sels == 1 && rng.chance(1, 4) {
            out.push_str(rng.pick(&["::before", "::after"]));
            pseudo = true;
        }
    }
    out.push_str(" { ");
    if pseudo {
        out.push_str(&format!("content: {}; ", {
            let mut c = gen_css_string(rng);
            // keep it a terminated string
            let q = c.chars().next().unwrap();
            if !c.ends_with(q) || c.len() < 2 {
                c.push(q);
            }
            c
        }));
    }
    let n = rng.urange(if pseudo { 0 } else { 1 }, 3);
    for _ in 0..n {
        let d = match rng.below(17) {
            12 => format!("display: {}", rng.pick(&["x-raw-dom", "block", "inline-block", "table-cell", "list-item"])),
            13 => format!("background: {}", rng.pick(&["red", "#abc", "#a1b2c3", "rgb(9, 8, 7)", "none", "url(x.png)", "red url(x.png) no-repeat"])),
            14 => format!(
                "{}: {}{}",
                rng.pick(&["height", "max-height"]),
                rng.pick(&["0", "0.0", "1", "10", "-1", "+0", ".5", "0.000001", "100000000000000000000"]),
                rng.pick(&["", "px", "em", "ex", "pt", "pc", "in", "cm", "mm", "%"])
            ),
            15 => format!("{}: {}", rng.pick(&["overflow", "overflow-y"]), rng.pick(&["hidden", "visible", "scroll", "auto"])),
            16 => format!("color: {}", gen_colour(rng).replace(';', "")),
            0..=2 => format!("color: {}", rng.pick(&["red", "#fff", "#123456", "rgb(1, 2, 3)", "blue"])),
            3 => format!("background-color: {}", rng.pick(&["#000", "#abcdef", "red"])),
            4 | 5 => "display: none".to_string(),
            6 => format!("white-space: {}", rng.pick(&["pre", "pre-wrap", "normal"])),
            7 => "height: 0; overflow: hidden".to_string(),
            8 => "max-height: 0px; overflow-y: hidden".to_string(),
            9 => format!("color: {} !important", rng.pick(&["red", "#0f0"])),
            10 => "display: inline".to_string(),
            _ => "margin: 0 auto".to_string(),
        };
        out.push_str(&d);
        out.push_str("; ");
    }
    out.push_str("}\n");
}

/// One rule whose selector is very long in one of several ways: `n`
/// components in a compound, a chain of combinators, or a selector list.
pub fn gen_long_selector_sheet(rng: &mut Rng, n: usize) -> String {
    let mut out = String::new();
    let simple = |rng: &mut Rng| -> String {
        match rng.below(6) {
            0 => format!(".{}", rng.pick(CLASSES)),
            1 => rng.pick(&["div", "p", "span", "td", "li", "em", "b"]).to_string(),
            2 => format!("#{}", rng.pick(IDS)),
            3 => "*".to_string(),
            4 => ":nth-child(n)".to_string(),
            _ => format!("{}.{}", rng.pick(&["div", "p", "span"]), rng.pick(CLASSES)),
        }
    };
    match rng.below(6) {
        0 => {
            // one compound: .c0.c0.c0 ...
            if rng.chance(1, 2) {
                out.push_str(rng.pick(&["div", "p", "span", "td", "*"]));
            }
            let c = format!(".{}", rng.pick(CLASSES));
            for _ in 0..n {
                out.push_str(&c);
            }
        }
        1 => {
            // a compound of mixed components
            for _ in 0..n {
                match rng.below(3) {
                    0 => out.push_str(&format!(".{}", rng.pick(CLASSES))),
                    1 => out.push_str(&format!("#{}", rng.pick(IDS))),
                    _ => out.push_str(":nth-child(n)"),
                }
            }
        }
        2 | 3 => {
            // a chain with one kind of combinator, or alternating kinds
            let alt = rng.chance(1, 2);
            let comb = rng.pick(&[" ", " > ", ">", "  "]);
            let s = simple(rng);
            let vary = rng.chance(1, 2);
            for i in 0..n {
                if i > 0 {
                    if alt {
                        out.push_str(if i % 2 == 0 { " " } else { " > " });
                    } else {
                        out.push_str(comb);
                    }
                }
                if vary {
                    out.push_str(&simple(rng));
                } else {
                    out.push_str(&s);
                }
            }
        }
        4 => {
            // a selector list
            for i in 0..n {
                if i > 0 {
                    out.push_str(rng.pick(&[",", ", "]));
                }
                out.push_str(&simple(rng));
            }
        }
        _ => {
            // many rules
            for _ in 0..n.min(3000) {
                out.push_str(&simple(rng));
                out.push_str("{color:red;}");
            }
            return out;
        }
    }
    out.push_str(rng.pick(&[" { color: red; }", " { display: none; }", "{color:#123456 !important;}", "::before { content: \"x\"; }"]));
    out
}

pub fn gen_sheet(rng: &mut Rng, out: &mut String, max_rules: usize, sloppy: bool) {
    let n = rng.urange(0, max_rules);
    // Most rules come from the supported grammar, so that they are actually
    // applied (one rule the parser rejects silently ends the whole sheet).
    if !sloppy || rng.chance(1, 2) {
        for _ in 0..n.max(1) {
            gen_valid_rule(rng, out);
            if sloppy && rng.chance(1, 6) {
                break;
            }
        }
        if !sloppy {
            return;
        }
    }
    for _ in 0..n {
        let k = rng.below(20);
        if k == 0 {
            out.push_str("/* comment */");
        } else if k == 1 {
            out.push_str(rng.pick(&[
                "@media screen { p { color: red } }",
                "@import url(\"x.css\");",
                "@charset \"utf-8\";",
                "@font-face { font-family: x; src: url(x) }",
                "@media (max-width: 10px) { .c0 { display: none; } } ",
                "@",
                "@x",
                "@media {",
                "<!-- p { color: red } -->",
            ]));
        } else {
            let sels = rng.urange(1, 3);
            for i in 0..sels {
                if i > 0 {
                    out.push_str(rng.pick(&[",", ", ", " ,\n"]));
                }
                gen_selector(rng, out, 4);
            }
            out.push_str(rng.pick(&["{", " {", " {\n", "{ "]));
            if out.ends_with("::before{") || out.ends_with("::after{") || out.contains("::before {") || out.contains("::after {") {
                if rng.chance(3, 4) {
                    out.push_str(&format!("content: {};", gen_css_string(rng)));
                }
            }
            gen_decls(rng, out, 4, sloppy);
            out.push_str(rng.pick(&["}", "}\n", " } "]));
        }
        if sloppy && rng.chance(1, 8) {
            out.push_str(rng.pick(&["}", "{", "\"unterminated", "/* open", "\\", "]]>", "-->", "<!--", "'", "url(", "\u{0}", "宽 { color: 宽 }", ";"]));
        }
    }
}

const CSS_TOKENS: &[&str] = &[
    "{", "}", "(", ")", "[", "]", ";", ":", ",", ".", "#", "*", ">", "+", "~", "@", "!", "\"", "'", "\\",
    "/*", "*/", "<!--", "-->", "url(", "rgb(", "color", "display", "none", "important", "p", "div", ".c0",
    "#i0", "nth-child", "odd", "2n+1", "0", "1e9", "-", "--", "0px", "100%", " ", "\n", "\t", "\u{0}", "宽",
    "\\41", "\\\n", "::before", "content", "\"a\"", "hidden", "overflow", "height", "white-space", "pre",
];

pub fn gen_css_soup(rng: &mut Rng, out: &mut String, n: usize) {
    for _ in 0..n {
        out.push_str(rng.pick(CSS_TOKENS));
    }
}

/// An adversarial selector: a long descendant chain, to be used over deep
/// same-name nests.
pub fn gen_chain_selector(rng: &mut Rng, tag: &str, steps: usize) -> String {
    let mut s = String::new();
    if rng.chance(1, 2) {
        s.push_str("x ");
    }
    for i in 0..steps {
        if i > 0 {
            s.push(' ');
        }
        s.push_str(tag);
    }
    s.push_str(" { color: red; }");
    s
}

// ---------------------------------------------------------------- config

// ASCII includes the control characters: a decorator may well return a tab.
const ASCII_AFFIX: &[&str] = &[
    "", "", "*", "_", "**", "`", "[", "]", "<", ">", "~~", " ", "(", ")", "!", "#", "--", "abc", "{{", "}}", "\t", "\u{1}",
    "a\u{8}", "\n", "\u{7f}", "  ", "\u{1b}[1m",
];
const ASCII_PREFIX: &[&str] = &[
    "", "> ", "* ", "- ", "# ", "|", "    ", "=", ">>> ", "o ", ">\t", "-\t", "\t", "\u{1}> ", "> \n", "\u{7f}",
    "\u{1b}[2m> ",
];

pub fn gen_custom_deco(rng: &mut Rng) -> CustomDeco {
    let mut a = |rng: &mut Rng| {
        if rng.chance(1, 40) {
            // a very long decoration
            rng.pick(&["=", "ab", "<>", " "]).repeat(rng.pick(&[50usize, 300, 10_000]))
        } else {
            rng.pick(ASCII_AFFIX).to_string()
        }
    };
    let long_prefix = |rng: &mut Rng, base: &str| -> String {
        if rng.chance(1, 30) {
            rng.pick(&[">", "- ", "#", " "]).repeat(rng.pick(&[30usize, 250, 5_000]))
        } else {
            base.to_string()
        }
    };
    CustomDeco {
        link_start: a(rng),
        link_end: a(rng),
        em: (a(rng), a(rng)),
        strong: (a(rng), a(rng)),
        strike: (a(rng), a(rng)),
        code: (a(rng), a(rng)),
        img: (a(rng), a(rng)),
        header: {
            let b = rng.pick(&["#", "", "=", "##", "h"]);
            long_prefix(rng, b)
        },
        quote: {
            let b = rng.pick(ASCII_PREFIX);
            long_prefix(rng, b)
        },
        ul: {
            let b = rng.pick(ASCII_PREFIX);
            long_prefix(rng, b)
        },
        ol_suffix: rng.pick(&[". ", ") ", "", ":", " - "]).to_string(),
        sup: (a(rng), a(rng)),
        // a decorator may label items any way it likes: the longest label
        // need not be the first or the last one
        ol_labels: match rng.below(5) {
            0 => ["i", "ii", "iii", "iv", "v", "vi", "vii", "viii", "ix", "x"].iter().map(|s| s.to_string()).collect(),
            1 => ["one", "two", "three", "four"].iter().map(|s| s.to_string()).collect(),
            2 => ["", "a", "", "bbbbbbbb"].iter().map(|s| s.to_string()).collect(),
            _ => vec![],
        },
        // prefixes which depend on the nesting level
        per_level: match rng.below(6) {
            0 => ["", "-", "--", "---"].iter().map(|s| s.to_string()).collect(),
            1 => ["..", ""].iter().map(|s| s.to_string()).collect(),
            2 => ["0> ", "1> ", "2> ", "3> ", "4> ", "5> ", "6> ", "7> ", "8> ", "9> ", "10> "].iter().map(|s| s.to_string()).collect(),
            _ => vec![],
        },
        counting: rng.chance(1, 4),
    }
}

pub struct ConfigGen {
    pub allow_custom: bool,
    pub allow_css: bool,
    /// allow pad_block_width (bounded widths only)
    pub allow_pad: bool,
    /// allow min_wrap_width(0) / huge values
    pub extreme_values: bool,
    pub sloppy_css: bool,
}

pub fn gen_config(rng: &mut Rng, g: &ConfigGen) -> ConfigSpec {
    let deco = match rng.below(if g.allow_custom { 10 } else { 8 }) {
        0..=2 => Deco::Plain,
        3 => Deco::PlainNoDecorate,
        4 | 5 => Deco::Rich,
        6 | 7 => Deco::Trivial,
        _ => Deco::Custom {
            strings: gen_custom_deco(rng),
        },
    };
    let mut c = ConfigSpec::base(deco);
    // swarm: with probability 1/4 leave everything default
    if rng.chance(1, 4) {
        return c;
    }
    let dens = rng.range(2, 6);
    c.allow_width_overflow = rng.chance(1, dens);
    if rng.chance(1, dens) {
        c.min_wrap_width = Some(if g.extreme_values {
            rng.pick(&[0usize, 0, 1, 2, 3, 5, 10, 40, 1000, usize::MAX])
        } else {
            rng.pick(&[1usize, 2, 3, 5, 10, 40])
        });
    }
    if rng.chance(1, dens) {
        c.max_wrap_width = Some(if g.extreme_values {
            rng.pick(&[0usize, 1, 2, 5, 10, 20, 40, 80, 1000, usize::MAX])
        } else {
            rng.pick(&[1usize, 2, 5, 10, 20, 40, 80, 1000])
        });
    }
    if g.allow_pad {
        c.pad_block_width = rng.chance(1, dens);
    }
    if rng.chance(1, dens) {
        c.raw_mode = Some(rng.chance(3, 4));
    }
    c.no_table_borders = rng.chance(1, dens);
    c.no_link_wrapping = rng.chance(1, dens);
    if rng.chance(1, dens) {
        c.link_footnotes = Some(rng.chance(1, 2));
    }
    if rng.chance(1, dens) {
        c.unicode_strikeout = Some(rng.chance(1, 2));
    }
    c.do_decorate = rng.chance(1, dens);
    if g.allow_css {
        c.use_doc_css = rng.chance(1, 3);
        if rng.chance(1, 3) {
            let n = rng.urange(1, 2);
            for _ in 0..n {
                let mut text = String::new();
                gen_sheet(rng, &mut text, 5, g.sloppy_css);
                c.css.push(CssSpec {
                    agent: rng.chance(1, 3),
                    text,
                });
            }
        }
    }
    // the builder methods may be called in any order, some of them twice
    if !c.is_default_options() && rng.chance(1, 3) {
        c.builder_order = rng.next_u64() | 1;
    }
    c
}

pub fn gen_width(rng: &mut Rng, extremes: bool) -> usize {
    let k = rng.below(100);
    if k < 4 {
        0
    } else if k < 30 {
        rng.urange(1, 8)
    } else if k < 60 {
        rng.urange(9, 40)
    } else if k < 85 {
        rng.urange(41, 120)
    } else if k < 95 || !extremes {
        rng.urange(121, 200)
    } else if k < 98 {
        100_000
    } else {
        usize::MAX
    }
}

// ---------------------------------------------------------------- read plans

/// Offsets where a chunk boundary lands inside in-flight parser/decoder state.
pub fn interesting_offsets(doc: &[u8]) -> Vec<usize> {
    let mut v = Vec::new();
    let n = doc.len();
    let mut i = 0;
    while i < n {
        let b = doc[i];
        if (0x80..0xC0).contains(&b) {
            v.push(i); // inside a multi-byte sequence
        } else if b >= 0xC0 {
            v.push(i); // chunk starts with a multi-byte char (U+FEFF: EF BB BF)
        } else if b == b'\r' {
            v.push(i + 1);
        } else if b == b'&' || b == b'<' {
            for d in 1..6 {
                if i + d < n {
                    v.push(i + d);
                }
            }
        } else if b == b'-' || b == b'/' || b == b'=' || b == b'"' || b == b';' || b == b'>' {
            v.push(i);
            v.push(i + 1);
        }
        i += 1;
    }
    let mut k = 4096;
    while k <= n + 4 {
        for d in [-3i64, -2, -1, 0, 1, 2, 3] {
            let o = k as i64 + d;
            if o > 0 && (o as usize) < n {
                v.push(o as usize);
            }
        }
        k += 4096;
    }
    v.retain(|&o| o > 0 && o < n);
    v.sort_unstable();
    v.dedup();
    v
}

/// Steps that put chunk boundaries exactly at `cuts` (sorted, within doc).
pub fn steps_for_boundaries(cuts: &[usize]) -> Vec<ReadStep> {
    let mut steps = Vec::new();
    let mut pos = 0usize;
    for &c in cuts {
        while pos < c {
            let k = (c - pos).min(4096);
            steps.push(ReadStep::Data(k as u32));
            pos += k;
        }
    }
    steps
}

pub struct PlanGen {
    pub eintr: bool,
    pub scribble: bool,
    pub cut: bool,
    pub hard_error: bool,
}

/// Whether read plans may contain `ReadStep::Reenter` (the executor supports
/// it; replay files may contain it).
pub const REENTER_ENABLED: bool = false;

pub fn gen_plan(rng: &mut Rng, doc_len: usize, interesting: &[usize], g: &PlanGen) -> ReadPlan {
    let mut plan = ReadPlan::default();
    let mode = rng.weighted(&[14, 10, 8, 22, 28, 8, 10]);
    let max_steps = 6000usize;
    match mode {
        0 => {} // one shot
        1 => {
            // uniform k-byte chunks
            let k = rng.pick(&[1u32, 1, 2, 3, 4, 5, 7, 8, 16, 63, 100, 1000, 4095]);
            let n = (doc_len / k as usize + 2).min(max_steps);
            plan.steps = vec![ReadStep::Data(k); n];
        }
        2 => {
            // random sizes
            let mut pos = 0;
            while pos < doc_len && plan.steps.len() < max_steps {
                let k = match rng.below(10) {
                    0..=2 => 1,
                    3..=5 => rng.range(2, 8) as u32,
                    6..=8 => rng.range(9, 512) as u32,
                    _ => 4096,
                };
                plan.steps.push(ReadStep::Data(k));
                pos += k as usize;
            }
        }
        3 | 4 => {
            // boundaries exactly at 1..4 interesting offsets
            if !interesting.is_empty() {
                let n = if mode == 3 { 1 } else { rng.urange(2, 4) };
                let mut cuts: Vec<usize> = (0..n).map(|_| rng.pick(interesting)).collect();
                // sometimes a run of adjacent boundaries (1-byte chunks around the spot)
                if rng.chance(1, 3) {
                    let c = cuts[0];
                    for d in 1..=rng.urange(1, 4) {
                        if c + d < doc_len {
                            cuts.push(c + d);
                        }
                    }
                }
                cuts.sort_unstable();
                cuts.dedup();
                plan.steps = steps_for_boundaries(&cuts);
            }
        }
        5 => {
            // small chunks only around an interesting spot, full elsewhere
            if !interesting.is_empty() {
                let c = rng.pick(interesting);
                let lo = c.saturating_sub(rng.urange(0, 6));
                let mut cuts: Vec<usize> = (lo..(c + rng.urange(1, 8)).min(doc_len)).collect();
                cuts.retain(|&x| x > 0);
                plan.steps = steps_for_boundaries(&cuts);
            }
        }
        _ => {
            // one byte first, then full / or full then trickle
            if rng.chance(1, 2) {
                plan.steps = vec![ReadStep::Data(1)];
            } else {
                plan.steps = vec![ReadStep::Full, ReadStep::Data(1), ReadStep::Data(1), ReadStep::Data(2)];
            }
        }
    }
    if g.eintr && rng.chance(1, 3) {
        let bursts = rng.urange(1, 3);
        for _ in 0..bursts {
            let at = rng.usize_below(plan.steps.len() + 1);
            let b = rng.urange(1, 4);
            for _ in 0..b {
                plan.steps.insert(at, ReadStep::Eintr);
            }
        }
    }
    // (generation switched off: see DESIGN 12, re-entrant readers)
    if REENTER_ENABLED && rng.chance(1, 12) {
        // a reader that calls the library itself, once or twice, at any point
        // of the stream (also instead of the final Ok(0))
        for _ in 0..rng.urange(1, 2) {
            let at = rng.usize_below(plan.steps.len() + 1);
            let n = rng.pick(&[1u32, 7, 100, 4096]);
            plan.steps.insert(at, ReadStep::Reenter(n));
        }
        if rng.chance(1, 3) {
            // ... and when the stream is (nearly) at its end
            let chunks = doc_len / 4096 + 2;
            while plan.steps.len() < chunks {
                plan.steps.push(ReadStep::Full);
            }
            plan.steps.push(ReadStep::Reenter(4096));
        }
    }
    if g.scribble && rng.chance(1, 4) {
        let all = rng.chance(1, 2);
        for s in plan.steps.iter_mut() {
            if let ReadStep::Data(n) = *s {
                if all || rng.chance(1, 4) {
                    *s = ReadStep::Scribble(n);
                }
            }
        }
        if plan.steps.is_empty() && doc_len > 0 {
            plan.steps.push(ReadStep::Scribble(rng.range(1, doc_len.min(4095) as u64) as u32));
        }
    }
    if g.cut && rng.chance(1, 8) {
        let at = if !interesting.is_empty() && rng.chance(2, 3) {
            rng.pick(interesting)
        } else {
            rng.usize_below(doc_len + 1)
        };
        plan.cut_at = Some(at);
    }
    if g.hard_error && rng.chance(1, 10) {
        let at = if rng.chance(1, 3) {
            plan.limit(doc_len)
        } else if rng.chance(1, 4) {
            0
        } else {
            rng.usize_below(doc_len + 1)
        };
        let kind = rng.pick(&[
            ErrKind::ConnectionReset,
            ErrKind::UnexpectedEof,
            ErrKind::WouldBlock,
            ErrKind::TimedOut,
            ErrKind::Other,
            ErrKind::InvalidData,
            ErrKind::BrokenPipe,
            ErrKind::PermissionDenied,
            ErrKind::NotFound,
            ErrKind::InvalidInput,
            ErrKind::OutOfMemory,
            ErrKind::Unsupported,
            ErrKind::ConnectionAborted,
            ErrKind::NotConnected,
            ErrKind::WriteZero,
            ErrKind::RawEio,
            ErrKind::RawEagain,
            ErrKind::RawEnomem,
            ErrKind::OtherWrappingInterrupted,
        ]);
        plan.err_at = Some((at, kind));
    }
    plan
}

// ---------------------------------------------------------------- corruption

/// Transport corruption applied to the byte stream.  Returns the number of
/// corruption events applied.
pub fn corrupt(rng: &mut Rng, doc: &mut Vec<u8>) -> u64 {
    if doc.is_empty() {
        doc.push(rng.below(256) as u8);
        return 1;
    }
    let n = rng.urange(1, 6);
    for _ in 0..n {
        let len = doc.len();
        if len == 0 {
            break;
        }
        let at = rng.usize_below(len);
        match rng.below(7) {
            0 => doc[at] ^= 1 << rng.below(8),
            1 => {
                doc.remove(at);
            }
            2 => {
                let b = doc[at];
                doc.insert(at, b);
            }
            3 => {
                // swap two segments
                let l = rng.urange(1, 16).min(len - at);
                let at2 = rng.usize_below(len);
                let l2 = l.min(len - at2);
                for i in 0..l2.min(l) {
                    if at + i < len && at2 + i < len {
                        doc.swap(at + i, at2 + i);
                    }
                }
            }
            4 => {
                let garbage: &[&[u8]] = &[
                    b"\xff", b"\xc0\x80", b"\xed\xa0\x80", b"\xf4\x90\x80\x80", b"\x00", b"<", b">", b"&",
                    b"\xe2\x82", b"</", b"<!--", b"-->", b"\"", b"'", b"=", b"\xef\xbb\xbf", b"<table>",
                    b"</table>", b"<td colspan=", b"\r", b"\xf0\x9f", b"<plaintext>", b"<![CDATA[",
                ];
                let g = rng.pick(garbage);
                for (i, &b) in g.iter().enumerate() {
                    doc.insert(at + i, b);
                }
            }
            5 => doc[at] = rng.below(256) as u8,
            _ => {
                // truncate inside
                let keep = at.max(1);
                if rng.chance(1, 3) {
                    doc.truncate(keep);
                } else {
                    doc[at] = b'<';
                }
            }
        }
    }
    n as u64
}
