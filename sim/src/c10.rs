//! C10: all routes agree; rendering is deterministic; trees are reusable.
//! Scenario generation (delivery / history / interleaving classes) and the
//! oracle against the one-shot reference model.

use crate::exec::{reference, Outcome, RunResult};
use crate::gen::*;
use crate::prng::Rng;
use crate::scenario::*;
use std::collections::HashMap;

pub const FUEL: u64 = 800_000_000;

fn has_style_rules(c: &ConfigSpec) -> bool {
    c.do_decorate || c.use_doc_css || !c.css.is_empty() || matches!(c.decorator, Deco::Plain)
}

fn gen_widths(rng: &mut Rng) -> Vec<usize> {
    let n = rng.urange(1, 6);
    let mut ws: Vec<usize> = (0..n).map(|_| gen_width(rng, false)).collect();
    // repeated and out of order
    if n > 1 && rng.chance(1, 2) {
        let i = rng.usize_below(n);
        let j = rng.usize_below(n);
        ws[i] = ws[j];
    }
    ws
}

struct VarInfo {
    doc_len: usize,
    interesting: Vec<usize>,
    default_opts: bool,
    free_parse_ok: bool,
}

struct Gen<'a> {
    wl: &'a mut Rng,
    fr: &'a mut Rng,
    vars: Vec<VarInfo>,
    cur: usize,
    widths: Vec<usize>,
    rich: bool,
    deco: Deco,
    next_slot: u32,
}

impl<'a> Gen<'a> {
    fn plan(&mut self, faulty: bool) -> ReadPlan {
        let g = PlanGen {
            eintr: true,
            scribble: true,
            cut: faulty,
            hard_error: faulty,
        };
        let v = &self.vars[self.cur];
        gen_plan(self.fr, v.doc_len, &v.interesting, &g)
    }
    /// Possibly switch this thread to another (document, configuration) variant.
    fn maybe_switch(&mut self, ops: &mut Vec<Op>) {
        if self.vars.len() > 1 && self.wl.chance(2, 5) {
            let v = self.wl.usize_below(self.vars.len());
            if v != self.cur {
                self.cur = v;
                ops.push(Op::Use { variant: v as u32 });
            }
        }
    }
    fn w(&mut self) -> usize {
        self.wl.pick(&self.widths)
    }
    fn slot(&mut self) -> u32 {
        self.next_slot += 1;
        self.next_slot
    }

    /// One complete one-shot style op (with its own delivery plan).
    fn one_shot(&mut self, ops: &mut Vec<Op>, faulty: bool) {
        let w = self.w();
        let plan = self.plan(faulty);
        let mut choices: Vec<u32> = vec![30, 20, 0, 0, 0, 0, 0, 15];
        if self.rich {
            choices[2] = 15;
        }
        if self.vars[self.cur].default_opts {
            match self.deco {
                Deco::Plain => choices[3] = 12,
                Deco::Rich => {
                    choices[4] = 10;
                    choices[5] = 10;
                }
                _ => {}
            }
            if !matches!(self.deco, Deco::Plain) {
                choices[6] = 10;
            }
        }
        match self.wl.weighted(&choices) {
            0 => ops.push(Op::OneShotString { w, plan }),
            1 => ops.push(Op::OneShotLines { w, plan }),
            2 => ops.push(Op::OneShotColoured { w, plan }),
            3 => ops.push(Op::FreeFromRead { w, plan }),
            4 => ops.push(Op::FreeFromReadRich { w, plan }),
            5 => ops.push(Op::FreeFromReadColoured { w, plan }),
            6 => ops.push(Op::FreeWithDecorator { w, plan }),
            _ => {
                // staged mini-route with this delivery
                let d = self.slot();
                let t = self.slot();
                ops.push(Op::ParseDom { plan, dom: d });
                ops.push(Op::BuildTree { dom: d, tree: t });
                if self.wl.chance(1, 3) {
                    ops.push(Op::DropDom { dom: d });
                }
                let consume = self.wl.chance(1, 2);
                self.render(ops, t, consume);
            }
        }
    }

    fn render(&mut self, ops: &mut Vec<Op>, tree: u32, consume: bool) {
        let w = self.w();
        let k = self.wl.weighted(&[50, 30, if self.rich { 20 } else { 0 }]);
        ops.push(match k {
            0 => Op::RenderString { tree, w, consume },
            1 => Op::RenderLines { tree, w, consume },
            _ => Op::RenderColoured { tree, w, consume },
        });
    }

    /// A staged history on one tree: clones, renders at many widths in any
    /// order, drops in any order.
    fn history(&mut self, ops: &mut Vec<Op>, len: usize, faulty: bool) {
        let d = self.slot();
        let t = self.slot();
        let mut dom_alive = false;
        if self.vars[self.cur].free_parse_ok && self.wl.chance(1, 6) {
            let plan = self.plan(faulty);
            ops.push(Op::FreeParse { plan, tree: t });
        } else {
            let plan = self.plan(faulty);
            ops.push(Op::ParseDom { plan, dom: d });
            ops.push(Op::BuildTree { dom: d, tree: t });
            if self.wl.below(3) == 0 {
                ops.push(Op::DropDom { dom: d });
            } else {
                dom_alive = true;
            }
        }
        let mut live = vec![t];
        for _ in 0..len {
            let k = self.wl.below(10);
            if k < 6 {
                let tree = self.wl.pick(&live);
                self.render(ops, tree, false);
            } else if k < 8 {
                let from = self.wl.pick(&live);
                let to = self.slot();
                ops.push(Op::CloneTree { from, to });
                live.push(to);
            } else if k < 9 && live.len() > 1 {
                let i = self.wl.usize_below(live.len());
                let tree = live.remove(i);
                if self.wl.chance(1, 2) {
                    ops.push(Op::DropTree { tree });
                } else {
                    self.render(ops, tree, true);
                }
            } else if dom_alive {
                // a second tree from the same DOM
                let t2 = self.slot();
                ops.push(Op::BuildTree { dom: d, tree: t2 });
                live.push(t2);
            } else {
                let tree = self.wl.pick(&live);
                self.render(ops, tree, false);
            }
        }
        // consume what is left, in arbitrary order
        while let Some(tree) = live.pop() {
            if self.wl.chance(2, 3) {
                self.render(ops, tree, true);
            }
        }
    }
}

pub fn generate(run_seed: u64) -> Scenario {
    generate_class(run_seed, None)
}

/// As `generate`, with the scenario class forced (used by C01 for its
/// concurrent-callers class, which borrows the interleaved workload).
pub fn generate_class(run_seed: u64, force_class: Option<usize>) -> Scenario {
    let mut wl = Rng::stream(run_seed, 1);
    let mut fr = Rng::stream(run_seed, 2);
    let mut sr = Rng::stream(run_seed, 3);
    let mut er = Rng::stream(run_seed, 4);

    let class = wl.weighted(&[40, 30, 30]);
    let class = force_class.unwrap_or(class);
    let class_name = ["delivery", "history", "interleaved"][class];

    // --- document
    let size = wl.weighted(&[12, 40, 38, 10]);
    let target = match size {
        0 => wl.urange(1, 64),
        1 => wl.urange(65, 1500),
        2 => wl.urange(3500, 13000),
        _ => wl.urange(13000, 32000),
    };
    let mut p = DocParams::swarm(&mut wl, target);
    p.max_depth = p.max_depth.min(12);
    // boundary-sensitive constructs are the point of this check
    p.mix.wide |= wl.chance(1, 2);
    p.mix.zero |= wl.chance(1, 2);
    p.mix.entities |= wl.chance(1, 2);
    p.links |= wl.chance(1, 2);
    p.comments |= wl.chance(1, 2);
    p.huge_nums = wl.chance(1, 5);
    let doc = if wl.chance(1, 12) {
        // breadth: a table with hundreds of columns, or hundreds of items,
        // links or paragraphs (paths which only wide documents take)
        let mut d = String::new();
        match wl.below(4) {
            0 | 1 => {
                let cols = wl.pick(&[127usize, 128, 129, 200, 300]);
                let rows = wl.urange(1, 5);
                d.push_str("<table>");
                for r in 0..rows {
                    d.push_str("<tr>");
                    for c in 0..cols {
                        if c % 37 == 5 && r == 1 {
                            d.push_str("<td colspan=3>w</td>");
                        } else {
                            d.push_str(wl.pick(&["<td>a</td>", "<td>bc</td>", "<td></td>", "<td>\u{5bbd}</td>", "<th>h</th>"]));
                        }
                    }
                    d.push_str("</tr>");
                }
                d.push_str("</table><p>after</p>");
            }
            2 => {
                let n = wl.pick(&[100usize, 300, 1000]);
                d.push_str(wl.pick(&["<ul>", "<ol>", "<ol start=995>"]));
                for i in 0..n {
                    d.push_str(&format!("<li>item {} <a href='u{}'>l</a></li>", i, i % 7));
                }
            }
            _ => {
                let n = wl.pick(&[100usize, 300, 1000]);
                for i in 0..n {
                    d.push_str(&format!("<p id=p{}>para <b>{}</b> <a href=\"h\">x</a></p>", i, i));
                }
            }
        }
        d.into_bytes()
    } else if wl.chance(1, 7) {
        gen_micro_doc(&mut wl)
    } else if wl.chance(1, 4) {
        gen_doc_from_seeds(&mut wl, target, &p.mix, false)
    } else {
        gen_doc(&mut wl, p)
    };
    let interesting = interesting_offsets(&doc);

    // --- configuration (standard decorators)
    let cg = ConfigGen {
        allow_custom: false,
        allow_css: true,
        allow_pad: true,
        extreme_values: false,
        sloppy_css: false,
    };
    let config = gen_config(&mut wl, &cg);
    let widths = gen_widths(&mut wl);

    let rich = matches!(config.decorator, Deco::Rich);
    let deco = config.decorator.clone();
    let doc_len = doc.len();

    // --- sometimes a second (document, configuration) pair in the same
    // history: "independent of what was rendered before" includes other
    // documents and other configurations.
    let mut variants: Vec<Variant> = Vec::new();
    let mut vars = vec![VarInfo {
        doc_len,
        interesting,
        default_opts: config.is_default_options(),
        free_parse_ok: !has_style_rules(&config),
    }];
    if wl.chance(2, 5) {
        let vdoc = if wl.chance(1, 2) {
            let target = match wl.weighted(&[20, 50, 30]) {
                0 => wl.urange(1, 64),
                1 => wl.urange(65, 1500),
                _ => wl.urange(3500, 9000),
            };
            let mut p2 = DocParams::swarm(&mut wl, target);
            p2.max_depth = p2.max_depth.min(12);
            p2.links = true;
            p2.huge_nums = false;
            Some(gen_doc(&mut wl, p2))
        } else {
            None
        };
        let vcfg = if vdoc.is_none() && wl.chance(2, 3) {
            // the same document under a configuration that differs in exactly
            // one option: what a cache keyed by too little cannot tell apart
            let mut c2 = config.clone();
            let other = |rng: &mut Rng, cur: Option<usize>, pool: &[usize]| -> Option<usize> {
                let choices: Vec<usize> = pool.iter().copied().filter(|&k| Some(k) != cur).collect();
                Some(rng.pick(&choices))
            };
            match wl.below(12) {
                0 | 1 => c2.min_wrap_width = other(&mut wl, c2.min_wrap_width, &[1, 2, 3, 5, 10, 40]),
                2 => c2.max_wrap_width = other(&mut wl, c2.max_wrap_width, &[1, 2, 5, 10, 20, 40, 80]),
                3 => c2.allow_width_overflow = !c2.allow_width_overflow,
                4 => c2.pad_block_width = !c2.pad_block_width,
                5 => c2.raw_mode = Some(!c2.raw_mode.unwrap_or(false)),
                6 => c2.no_table_borders = !c2.no_table_borders,
                7 => c2.no_link_wrapping = !c2.no_link_wrapping,
                8 => c2.link_footnotes = Some(!c2.link_footnotes.unwrap_or(matches!(c2.decorator, Deco::Plain))),
                9 => c2.unicode_strikeout = Some(!c2.unicode_strikeout.unwrap_or(true)),
                10 => c2.do_decorate = !c2.do_decorate,
                _ => c2.use_doc_css = !c2.use_doc_css,
            }
            Some(c2)
        } else if vdoc.is_none() || wl.chance(1, 2) {
            let mut c2 = gen_config(&mut wl, &cg);
            c2.decorator = config.decorator.clone();
            Some(c2)
        } else {
            None
        };
        let eff_cfg = vcfg.clone().unwrap_or_else(|| config.clone());
        let (dl, int) = match &vdoc {
            Some(d) => (d.len(), interesting_offsets(d)),
            None => (doc_len, vars[0].interesting.clone()),
        };
        vars.push(VarInfo {
            doc_len: dl,
            interesting: int,
            default_opts: eff_cfg.is_default_options(),
            free_parse_ok: !has_style_rules(&eff_cfg),
        });
        variants.push(Variant {
            doc: vdoc.map(|d| DocSpec::Bytes { bytes: Blob(d) }),
            config: vcfg,
        });
    }

    let nthreads = if class == 2 { wl.urange(2, 4) } else { 1 };
    let mut threads = Vec::new();
    let mut g = Gen {
        wl: &mut wl,
        fr: &mut fr,
        vars,
        cur: 0,
        widths,
        rich,
        deco,
        next_slot: 0,
    };
    let faulty_run = g.wl.chance(1, 2);
    for tid in 0..nthreads {
        let mut ops = Vec::new();
        g.cur = 0;
        match class {
            0 => {
                let n = g.wl.urange(2, 7);
                // always include the plain one-shot delivery of some route too
                for _ in 0..n {
                    g.maybe_switch(&mut ops);
                    g.one_shot(&mut ops, faulty_run);
                }
            }
            1 => {
                let n = g.wl.urange(3, 10);
                g.maybe_switch(&mut ops);
                if g.vars.len() > 1 && g.wl.chance(1, 2) {
                    // two interleaved histories over different documents
                    let n1 = g.wl.urange(1, 4);
                    g.history(&mut ops, n1, faulty_run);
                    g.maybe_switch(&mut ops);
                }
                g.history(&mut ops, n, faulty_run);
                if g.wl.chance(1, 3) {
                    g.maybe_switch(&mut ops);
                    g.one_shot(&mut ops, faulty_run);
                }
            }
            _ => {
                let segs = g.wl.urange(1, 3);
                for _ in 0..segs {
                    g.maybe_switch(&mut ops);
                    if g.wl.chance(1, 2) {
                        let n = g.wl.urange(1, 3);
                        for _ in 0..n {
                            g.one_shot(&mut ops, faulty_run);
                        }
                    } else {
                        let n = g.wl.urange(1, 5);
                        g.history(&mut ops, n, faulty_run);
                    }
                    // hand a tree to someone else / pick one up
                    if g.wl.chance(1, 2) {
                        let d = g.slot();
                        let t = g.slot();
                        let plan = g.plan(false);
                        ops.push(Op::ParseDom { plan, dom: d });
                        ops.push(Op::BuildTree { dom: d, tree: t });
                        let to = ((tid + 1 + g.wl.usize_below(nthreads - 1)) % nthreads) as u32;
                        if g.wl.chance(1, 2) {
                            // keep the tree and hand over a clone: two threads
                            // render clones of ONE tree at overlapping times
                            let c = g.slot();
                            ops.push(Op::CloneTree { from: t, to: c });
                            ops.push(Op::SendTree { tree: c, to });
                            let n = g.wl.urange(1, 3);
                            for _ in 0..n {
                                g.render(&mut ops, t, false);
                            }
                            g.render(&mut ops, t, true);
                        } else {
                            ops.push(Op::SendTree { tree: t, to });
                        }
                    }
                }
            }
        }
        if ops.len() > 16 {
            ops.truncate(16);
        }
        // Repeat one op verbatim (fresh hash-map keys, later position in the
        // history; in interleaved runs also on another thread's schedule).
        if g.wl.chance(1, 2) {
            let cands: Vec<usize> = (0..ops.len())
                .filter(|&i| {
                    matches!(
                        ops[i],
                        Op::OneShotString { .. } | Op::OneShotLines { .. } | Op::OneShotColoured { .. }
                    )
                })
                .collect();
            if !cands.is_empty() {
                let i = g.wl.pick(&cands);
                let dup = ops[i].clone();
                ops.push(dup);
            }
        }

        // preemption points inside tree building / rendering
        let mut preempt_ticks = Vec::new();
        if class == 2 {
            let density = er.weighted(&[20, 40, 30, 10]);
            let n = match density {
                0 => 0,
                1 => er.urange(1, 4),
                2 => er.urange(5, 20),
                _ => er.urange(21, 80),
            };
            let horizon = (g.vars.iter().map(|v| v.doc_len).max().unwrap_or(0) as u64 * 40 + 2000).max(2);
            for _ in 0..n {
                // log-uniform over the horizon
                let bits = er.range(1, 63 - horizon.leading_zeros() as u64 + 1);
                let hi = (1u64 << bits).min(horizon);
                preempt_ticks.push(er.range(1, hi));
            }
            preempt_ticks.sort_unstable();
            preempt_ticks.dedup();
        }
        // ... and at the n-th occurrence of individual sites: every site kind
        // gets the same share, so rarely reached ones (column remapping, table
        // shrinking, hard wraps, foster parenting ...) are preempted as often
        // as the per-character ones.
        let mut preempt_sites: Vec<(u32, u64)> = Vec::new();
        if class == 2 {
            let n = er.weighted(&[30, 30, 25, 15]);
            let n = match n {
                0 => 0,
                1 => er.urange(1, 2),
                2 => er.urange(3, 6),
                _ => er.urange(7, 16),
            };
            for _ in 0..n {
                let site = er.below(html2text::verif_hooks::NUM_SITES as u64) as u32;
                let nth = match er.below(4) {
                    0 => 1,
                    1 => er.range(1, 4),
                    2 => er.range(1, 32),
                    _ => er.range(1, 1000),
                };
                preempt_sites.push((site, nth));
            }
        }
        // ... and, mostly, at sites which a calibration rendering of this
        // document actually reaches (resolved at execution time)
        let mut preempt_hit: Vec<(u32, u32)> = Vec::new();
        if class == 2 {
            let n = match er.weighted(&[20, 30, 30, 20]) {
                0 => 0,
                1 => er.urange(1, 3),
                2 => er.urange(4, 10),
                _ => er.urange(11, 24),
            };
            for _ in 0..n {
                preempt_hit.push((er.below(64) as u32, er.below(1000) as u32));
            }
        }
        threads.push(ThreadSpec {
            stack_kib: 8192,
            ops,
            preempt_ticks,
            preempt_sites,
            preempt_hit,
        });
    }
    // Every tree handed to a thread is picked up there (bounded polite
    // receive) and rendered, at a random position of the receiver's history.
    if class == 2 {
        let mut sends: Vec<usize> = Vec::new();
        for t in &threads {
            for op in &t.ops {
                if let Op::SendTree { to, .. } = op {
                    sends.push(*to as usize % nthreads);
                }
            }
        }
        for to in sends {
            let t = g.slot();
            let mut extra = vec![Op::RecvTree { tree: t }];
            g.render(&mut extra, t, false);
            if g.wl.chance(1, 2) {
                let c = g.slot();
                extra.push(Op::CloneTree { from: t, to: c });
                g.render(&mut extra, c, true);
            }
            g.render(&mut extra, t, true);
            let len = threads[to].ops.len();
            let at = if g.wl.chance(1, 2) { len } else { g.wl.usize_below(len + 1) };
            for (k, op) in extra.into_iter().enumerate() {
                threads[to].ops.insert(at + k, op);
            }
        }
    }

    let sched = if nthreads == 1 {
        SchedSpec::RoundRobin
    } else {
        let seed = sr.next_u64();
        match sr.weighted(&[35, 30, 10, 25]) {
            0 => SchedSpec::Random { seed },
            1 => SchedSpec::Sticky {
                seed,
                den: sr.pick(&[2u32, 4, 16, 256]),
            },
            2 => SchedSpec::RoundRobin,
            _ => SchedSpec::Pct {
                seed,
                changes: sr.range(1, 3) as u32,
                horizon: sr.range(10, 400) as u32,
            },
        }
    };

    let has_variants = !variants.is_empty();
    Scenario {
        property: "C10".into(),
        class: class_name.into(),
        run_seed,
        doc: DocSpec::Bytes { bytes: Blob(doc) },
        config,
        threads,
        sched,
        fuel: crate::eval::fuel_override().unwrap_or(FUEL),
        corrupt_events: 0,
        variants,
        // one scenario in six is executed twice: the two executions must agree
        // op by op (hash-map keys, addresses and thread ids differ between them)
        repeat_check: run_seed % 6 == 0,
        // one run in sixteen (one in three of those with a second document or
        // configuration) is judged against references from a fresh process
        fresh_reference: if has_variants { run_seed % 3 == 1 } else { run_seed % 16 == 1 },
        env: gen_env(&mut er),
    }
}

fn snippet(a: &str, b: &str) -> String {
    let ab = a.as_bytes();
    let bb = b.as_bytes();
    let mut i = 0;
    while i < ab.len() && i < bb.len() && ab[i] == bb[i] {
        i += 1;
    }
    let lo = i.saturating_sub(24);
    let cut = |s: &[u8]| -> String {
        let hi = (i + 24).min(s.len());
        let lo = lo.min(s.len());
        format!("{:?}", String::from_utf8_lossy(&s[lo..hi]))
    };
    format!(
        "first difference at byte {} (lengths {} vs {}): expected …{}… got …{}…",
        i,
        ab.len(),
        bb.len(),
        cut(ab),
        cut(bb)
    )
}

pub struct Verdict {
    pub violation: Option<Violation>,
    /// number of op results compared with the reference
    pub compared: u64,
    /// scenario discarded because the reference itself ran out of fuel
    pub discarded: bool,
}

/// The oracle: every result must equal the reference model's result for the
/// delivered bytes and the width, whatever the route, delivery, history or
/// interleaving.
pub fn check(scen: &Scenario, res: &RunResult) -> Verdict {
    let nvar = scen.num_variants();
    let docs: Vec<Vec<u8>> = (0..nvar).map(|v| scen.variant_doc(v).materialise()).collect();
    let specs: Vec<ConfigSpec> = (0..nvar).map(|v| scen.variant_config(v)).collect();
    let mut refs: HashMap<(usize, usize, usize), (Outcome, Outcome)> = HashMap::new();
    if scen.fresh_reference {
        // the same keys the loop below will ask for, computed by a pristine process
        let mut keys: Vec<(usize, usize, usize)> = Vec::new();
        for r in &res.records {
            let (Some(limit), Some(w)) = (r.limit, r.width) else { continue };
            if r.reader_errored || matches!(r.outcome, Outcome::Skipped | Outcome::Unit) {
                continue;
            }
            let var = (r.variant as usize).min(nvar - 1);
            if r.free_tree && has_style_rules(&specs[var]) {
                continue;
            }
            if !keys.contains(&(var, limit, w)) {
                keys.push((var, limit, w));
            }
        }
        if !keys.is_empty() {
            if let Some(v) = crate::driver::fresh_references(scen, &keys) {
                for (k, r) in keys.into_iter().zip(v) {
                    refs.insert(k, r);
                }
            }
        }
    }
    let mut compared = 0u64;
    for r in &res.records {
        let (Some(limit), Some(w)) = (r.limit, r.width) else {
            // ops without a rendered result: a panic in them is still a
            // disagreement with the reference only if it is a render op; other
            // failures (clone/drop/parse panics) are C01's business, except fuel.
            continue;
        };
        if r.reader_errored {
            continue; // invariant 2: may fail, excluded from equality
        }
        if matches!(r.outcome, Outcome::Skipped | Outcome::Unit) {
            continue;
        }
        let var = (r.variant as usize).min(nvar - 1);
        let doc = &docs[var];
        if r.free_tree && has_style_rules(&specs[var]) {
            continue;
        }
        let (sref, lref) = refs
            .entry((var, limit, w))
            .or_insert_with(|| reference(&specs[var], doc, limit, w, scen.fuel));
        if matches!(sref, Outcome::Fuel) || matches!(lref, Outcome::Fuel) {
            return Verdict {
                violation: None,
                compared,
                discarded: true,
            };
        }
        compared += 1;
        let lines_valued = matches!(
            r.name,
            "OneShotLines" | "FreeFromReadRich" | "RenderLines"
        );
        let mut bad: Option<String> = None;
        match (&r.outcome, &*sref) {
            (Outcome::Text(got), Outcome::Text(exp)) => {
                if got != exp {
                    bad = Some(snippet(exp, got));
                }
            }
            (Outcome::Lines { text, digest }, Outcome::Text(exp)) => {
                if text != exp {
                    bad = Some(format!("joined lines differ from string route: {}", snippet(exp, text)));
                } else if let Outcome::Lines { digest: d2, .. } = lref {
                    if d2 != digest {
                        bad = Some("tagged lines (annotations/fragments) differ from one-shot lines_from_read although the text is equal".into());
                    }
                } else {
                    bad = Some(format!("reference lines route gave {} but this op gave lines", lref.class()));
                }
            }
            (got, exp) => {
                // error classes must agree exactly; two panics are equal when
                // their messages are (that is C01's violation, not C10's)
                let same = match (got, exp) {
                    (Outcome::TooNarrow, Outcome::TooNarrow) => true,
                    (Outcome::CssRejected, Outcome::CssRejected) => true,
                    (Outcome::Panic { msg: a, .. }, Outcome::Panic { msg: b, .. }) => a == b,
                    (Outcome::OtherErr(a), Outcome::OtherErr(b)) => a == b,
                    (Outcome::IoError(a), Outcome::IoError(b)) => a == b,
                    _ => false,
                };
                if !same {
                    bad = Some(format!(
                        "expected {} ({}) got {} ({})",
                        exp.class(),
                        short(exp),
                        got.class(),
                        short(got)
                    ));
                }
            }
        }
        let _ = lines_valued;
        if let Some(why) = bad {
            let sig = format!("mismatch:{}", r.name);
            return Verdict {
                violation: Some(Violation {
                    property: "C10".into(),
                    kind: "mismatch".into(),
                    signature: sig,
                    detail: format!(
                        "thread {} op #{} {} at width {} on the first {} of {} bytes{}: {}",
                        r.thread,
                        r.index,
                        r.name,
                        w,
                        limit,
                        doc.len(),
                        if var > 0 { format!(" of variant {}", var) } else { String::new() },
                        why
                    ),
                }),
                compared,
                discarded: false,
            };
        }
    }
    Verdict {
        violation: None,
        compared,
        discarded: false,
    }
}

fn short(o: &Outcome) -> String {
    match o {
        Outcome::Text(s) => format!("{:?}", s.chars().take(40).collect::<String>()),
        Outcome::Lines { text, .. } => format!("{:?}", text.chars().take(40).collect::<String>()),
        Outcome::Panic { msg, loc } => format!("{} at {}", msg, loc),
        Outcome::IoError(s) | Outcome::OtherErr(s) => s.clone(),
        other => other.class().to_string(),
    }
}
