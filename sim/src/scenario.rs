//! The explicit, serialisable description of one simulated run.  A scenario
//! is generated from a run seed, but once generated it is self-contained:
//! executing it needs no PRNG except the scheduler stream it names, and a
//! replay file is just a scenario plus the violation it produced.

use serde::{Deserialize, Serialize};

/// Bytes, written as a JSON string when they are valid UTF-8 and as hex
/// otherwise.
#[derive(Clone, Debug, PartialEq, Eq, Default)]
pub struct Blob(pub Vec<u8>);

#[derive(Serialize, Deserialize)]
#[serde(untagged)]
enum BlobRepr {
    Text(String),
    Hex { hex: String },
}

fn to_hex(b: &[u8]) -> String {
    let mut s = String::with_capacity(b.len() * 2);
    for x in b {
        s.push_str(&format!("{:02x}", x));
    }
    s
}

fn from_hex(s: &str) -> Result<Vec<u8>, String> {
    if s.len() % 2 != 0 {
        return Err("odd hex length".into());
    }
    (0..s.len() / 2)
        .map(|i| u8::from_str_radix(&s[2 * i..2 * i + 2], 16).map_err(|e| e.to_string()))
        .collect()
}

impl Serialize for Blob {
    fn serialize<S: serde::Serializer>(&self, ser: S) -> Result<S::Ok, S::Error> {
        match std::str::from_utf8(&self.0) {
            Ok(s) => BlobRepr::Text(s.to_string()).serialize(ser),
            Err(_) => BlobRepr::Hex {
                hex: to_hex(&self.0),
            }
            .serialize(ser),
        }
    }
}

impl<'de> Deserialize<'de> for Blob {
    fn deserialize<D: serde::Deserializer<'de>>(de: D) -> Result<Self, D::Error> {
        match BlobRepr::deserialize(de)? {
            BlobRepr::Text(s) => Ok(Blob(s.into_bytes())),
            BlobRepr::Hex { hex } => from_hex(&hex).map(Blob).map_err(serde::de::Error::custom),
        }
    }
}

/// The document.  `Nest` keeps deep documents compact and lets the
/// minimiser shrink the depth directly.
#[derive(Serialize, Deserialize, Clone, Debug, PartialEq, Eq)]
#[serde(tag = "kind")]
pub enum DocSpec {
    Bytes {
        bytes: Blob,
    },
    Nest {
        prefix: Blob,
        open: Blob,
        depth: u32,
        inner: Blob,
        close: Blob,
        /// how many of the `depth` close tags are actually written
        closes: u32,
        suffix: Blob,
    },
}

impl DocSpec {
    pub fn materialise(&self) -> Vec<u8> {
        match self {
            DocSpec::Bytes { bytes } => bytes.0.clone(),
            DocSpec::Nest {
                prefix,
                open,
                depth,
                inner,
                close,
                closes,
                suffix,
            } => {
                let mut v = Vec::with_capacity(
                    prefix.0.len()
                        + open.0.len() * *depth as usize
                        + inner.0.len()
                        + close.0.len() * *closes as usize
                        + suffix.0.len(),
                );
                v.extend_from_slice(&prefix.0);
                for _ in 0..*depth {
                    v.extend_from_slice(&open.0);
                }
                v.extend_from_slice(&inner.0);
                for _ in 0..*closes {
                    v.extend_from_slice(&close.0);
                }
                v.extend_from_slice(&suffix.0);
                v
            }
        }
    }
    pub fn depth(&self) -> u32 {
        match self {
            DocSpec::Bytes { .. } => 0,
            DocSpec::Nest { depth, .. } => *depth,
        }
    }
}

#[derive(Serialize, Deserialize, Clone, Debug, PartialEq, Eq)]
pub struct CustomDeco {
    pub link_start: String,
    pub link_end: String,
    pub em: (String, String),
    pub strong: (String, String),
    pub strike: (String, String),
    pub code: (String, String),
    pub img: (String, String),
    pub header: String,
    pub quote: String,
    pub ul: String,
    pub ol_suffix: String,
    pub sup: (String, String),
    /// per-number labels for ordered lists, used cyclically (roman numerals,
    /// letters, words ...); empty means decimal numbers
    #[serde(default)]
    pub ol_labels: Vec<String>,
    /// appended to the block prefixes (quote, list bullet, heading, ordered
    /// suffix) depending on the nesting level of the decorator, which
    /// `make_subblock_decorator` advances; empty: the same at every level
    #[serde(default)]
    pub per_level: Vec<String>,
    /// the decorator counts links and images (`&mut self` methods) and puts
    /// the count into its closing strings
    #[serde(default)]
    pub counting: bool,
}

#[derive(Serialize, Deserialize, Clone, Debug, PartialEq, Eq)]
#[serde(tag = "kind")]
pub enum Deco {
    Plain,
    PlainNoDecorate,
    Rich,
    Trivial,
    Custom { strings: CustomDeco },
}

#[derive(Serialize, Deserialize, Clone, Debug, PartialEq, Eq)]
pub struct CssSpec {
    pub agent: bool,
    pub text: String,
}

#[derive(Serialize, Deserialize, Clone, Debug, PartialEq, Eq)]
pub struct ConfigSpec {
    pub decorator: Deco,
    #[serde(default)]
    pub allow_width_overflow: bool,
    #[serde(default)]
    pub min_wrap_width: Option<usize>,
    #[serde(default)]
    pub max_wrap_width: Option<usize>,
    #[serde(default)]
    pub pad_block_width: bool,
    #[serde(default)]
    pub raw_mode: Option<bool>,
    #[serde(default)]
    pub no_table_borders: bool,
    #[serde(default)]
    pub no_link_wrapping: bool,
    #[serde(default)]
    pub link_footnotes: Option<bool>,
    #[serde(default)]
    pub unicode_strikeout: Option<bool>,
    #[serde(default)]
    pub do_decorate: bool,
    #[serde(default)]
    pub use_doc_css: bool,
    #[serde(default)]
    pub css: Vec<CssSpec>,
    /// Order in which the builder methods are called (0: the canonical order;
    /// otherwise the seed of a permutation, with some calls made twice).
    #[serde(default)]
    pub builder_order: u64,
}

impl ConfigSpec {
    pub fn base(decorator: Deco) -> ConfigSpec {
        ConfigSpec {
            decorator,
            allow_width_overflow: false,
            min_wrap_width: None,
            max_wrap_width: None,
            pad_block_width: false,
            raw_mode: None,
            no_table_borders: false,
            no_link_wrapping: false,
            link_footnotes: None,
            unicode_strikeout: None,
            do_decorate: false,
            use_doc_css: false,
            css: vec![],
            builder_order: 0,
        }
    }
    /// True if no option is set at all (so the free functions of the crate,
    /// which use fixed configurations, are equivalent routes).
    pub fn is_default_options(&self) -> bool {
        let b = ConfigSpec::base(self.decorator.clone());
        *self == b
    }
}

#[derive(Serialize, Deserialize, Clone, Copy, Debug, PartialEq, Eq)]
pub enum ErrKind {
    ConnectionReset,
    UnexpectedEof,
    WouldBlock,
    TimedOut,
    Other,
    InvalidData,
    BrokenPipe,
    PermissionDenied,
    NotFound,
    InvalidInput,
    OutOfMemory,
    Unsupported,
    ConnectionAborted,
    NotConnected,
    WriteZero,
    /// `io::Error::from_raw_os_error(EIO)`: no custom payload, OS message
    RawEio,
    /// `from_raw_os_error(EAGAIN)` (kind WouldBlock)
    RawEagain,
    /// `from_raw_os_error(ENOMEM)` (kind OutOfMemory)
    RawEnomem,
    /// an error with a payload that is itself an io::Error of kind Interrupted
    /// (the outer kind is Other: it must NOT be retried)
    OtherWrappingInterrupted,
}

impl ErrKind {
    pub fn to_io(self) -> std::io::Error {
        use std::io::ErrorKind as K;
        let k = match self {
            ErrKind::ConnectionReset => K::ConnectionReset,
            ErrKind::UnexpectedEof => K::UnexpectedEof,
            ErrKind::WouldBlock => K::WouldBlock,
            ErrKind::TimedOut => K::TimedOut,
            ErrKind::Other => K::Other,
            ErrKind::InvalidData => K::InvalidData,
            ErrKind::BrokenPipe => K::BrokenPipe,
            ErrKind::PermissionDenied => K::PermissionDenied,
            ErrKind::NotFound => K::NotFound,
            ErrKind::InvalidInput => K::InvalidInput,
            ErrKind::OutOfMemory => K::OutOfMemory,
            ErrKind::Unsupported => K::Unsupported,
            ErrKind::ConnectionAborted => K::ConnectionAborted,
            ErrKind::NotConnected => K::NotConnected,
            ErrKind::WriteZero => K::WriteZero,
            ErrKind::RawEio => return std::io::Error::from_raw_os_error(libc::EIO),
            ErrKind::RawEagain => return std::io::Error::from_raw_os_error(libc::EAGAIN),
            ErrKind::RawEnomem => return std::io::Error::from_raw_os_error(libc::ENOMEM),
            ErrKind::OtherWrappingInterrupted => {
                return std::io::Error::new(
                    K::Other,
                    std::io::Error::new(K::Interrupted, "inner"),
                )
            }
        };
        std::io::Error::new(k, "simulated read fault")
    }
}

/// One `read()` call's behaviour.  When the steps run out every further
/// call is `Full`.
#[derive(Serialize, Deserialize, Clone, Copy, Debug, PartialEq, Eq)]
pub enum ReadStep {
    /// deliver as much as fits
    Full,
    /// deliver at most n (>= 1) bytes
    Data(u32),
    /// deliver at most n bytes and scribble over the rest of the buffer
    Scribble(u32),
    /// fail this call with ErrorKind::Interrupted
    Eintr,
    /// before delivering at most n bytes, the reader itself calls the library
    /// (a complete nested conversion of a small fixed document): a reader is
    /// caller code and may do that, so whatever state the outer call holds
    /// while it reads must tolerate re-entry
    Reenter(u32),
}

#[derive(Serialize, Deserialize, Clone, Debug, PartialEq, Eq, Default)]
pub struct ReadPlan {
    #[serde(default)]
    pub steps: Vec<ReadStep>,
    /// The producer dies here: Ok(0) once this many bytes were delivered.
    #[serde(default)]
    pub cut_at: Option<usize>,
    /// Hard error once this many bytes were delivered (every later call too).
    #[serde(default)]
    pub err_at: Option<(usize, ErrKind)>,
}

impl ReadPlan {
    pub fn one_shot() -> ReadPlan {
        ReadPlan::default()
    }
    /// Number of bytes of a `len`-byte document that this plan delivers.
    pub fn limit(&self, len: usize) -> usize {
        let mut l = len;
        if let Some(c) = self.cut_at {
            l = l.min(c);
        }
        if let Some((e, _)) = self.err_at {
            l = l.min(e);
        }
        l
    }
    /// True if the plan ends in a hard error (when read to the end).
    pub fn errors(&self, len: usize) -> bool {
        match self.err_at {
            Some((e, _)) => e <= self.cut_at.unwrap_or(usize::MAX).min(len),
            None => false,
        }
    }
}

pub type Slot = u32;

#[derive(Serialize, Deserialize, Clone, Debug, PartialEq, Eq)]
#[serde(tag = "op")]
pub enum Op {
    // --- one-shot routes on a Config built from the recipe ---
    OneShotString { w: usize, plan: ReadPlan },
    OneShotLines { w: usize, plan: ReadPlan },
    OneShotColoured { w: usize, plan: ReadPlan },
    // --- free functions (fixed configurations) ---
    FreeFromRead { w: usize, plan: ReadPlan },
    FreeFromReadRich { w: usize, plan: ReadPlan },
    FreeFromReadColoured { w: usize, plan: ReadPlan },
    FreeWithDecorator { w: usize, plan: ReadPlan },
    FreeParse { plan: ReadPlan, tree: Slot },
    // --- staged route on the shared Config ---
    ParseDom { plan: ReadPlan, dom: Slot },
    BuildTree { dom: Slot, tree: Slot },
    CloneTree { from: Slot, to: Slot },
    RenderString { tree: Slot, w: usize, consume: bool },
    RenderLines { tree: Slot, w: usize, consume: bool },
    RenderColoured { tree: Slot, w: usize, consume: bool },
    DropDom { dom: Slot },
    DropTree { tree: Slot },
    SendTree { tree: Slot, to: u32 },
    RecvTree { tree: Slot },
    /// From here on this thread's reader ops use another (document,
    /// configuration) variant: 0 is the scenario's own, k is variants[k-1].
    Use { variant: u32 },
}

impl Op {
    pub fn name(&self) -> &'static str {
        match self {
            Op::OneShotString { .. } => "OneShotString",
            Op::OneShotLines { .. } => "OneShotLines",
            Op::OneShotColoured { .. } => "OneShotColoured",
            Op::FreeFromRead { .. } => "FreeFromRead",
            Op::FreeFromReadRich { .. } => "FreeFromReadRich",
            Op::FreeFromReadColoured { .. } => "FreeFromReadColoured",
            Op::FreeWithDecorator { .. } => "FreeWithDecorator",
            Op::FreeParse { .. } => "FreeParse",
            Op::ParseDom { .. } => "ParseDom",
            Op::BuildTree { .. } => "BuildTree",
            Op::CloneTree { .. } => "CloneTree",
            Op::RenderString { .. } => "RenderString",
            Op::RenderLines { .. } => "RenderLines",
            Op::RenderColoured { .. } => "RenderColoured",
            Op::DropDom { .. } => "DropDom",
            Op::DropTree { .. } => "DropTree",
            Op::SendTree { .. } => "SendTree",
            Op::RecvTree { .. } => "RecvTree",
            Op::Use { .. } => "Use",
        }
    }
    pub fn plan(&self) -> Option<&ReadPlan> {
        match self {
            Op::OneShotString { plan, .. }
            | Op::OneShotLines { plan, .. }
            | Op::OneShotColoured { plan, .. }
            | Op::FreeFromRead { plan, .. }
            | Op::FreeFromReadRich { plan, .. }
            | Op::FreeFromReadColoured { plan, .. }
            | Op::FreeWithDecorator { plan, .. }
            | Op::FreeParse { plan, .. }
            | Op::ParseDom { plan, .. } => Some(plan),
            _ => None,
        }
    }
    pub fn plan_mut(&mut self) -> Option<&mut ReadPlan> {
        match self {
            Op::OneShotString { plan, .. }
            | Op::OneShotLines { plan, .. }
            | Op::OneShotColoured { plan, .. }
            | Op::FreeFromRead { plan, .. }
            | Op::FreeFromReadRich { plan, .. }
            | Op::FreeFromReadColoured { plan, .. }
            | Op::FreeWithDecorator { plan, .. }
            | Op::FreeParse { plan, .. }
            | Op::ParseDom { plan, .. } => Some(plan),
            _ => None,
        }
    }
    pub fn width_mut(&mut self) -> Option<&mut usize> {
        match self {
            Op::OneShotString { w, .. }
            | Op::OneShotLines { w, .. }
            | Op::OneShotColoured { w, .. }
            | Op::FreeFromRead { w, .. }
            | Op::FreeFromReadRich { w, .. }
            | Op::FreeFromReadColoured { w, .. }
            | Op::FreeWithDecorator { w, .. }
            | Op::RenderString { w, .. }
            | Op::RenderLines { w, .. }
            | Op::RenderColoured { w, .. } => Some(w),
            _ => None,
        }
    }
}

#[derive(Serialize, Deserialize, Clone, Debug, PartialEq, Eq)]
pub struct ThreadSpec {
    pub stack_kib: u32,
    pub ops: Vec<Op>,
    /// Per-thread tick counts at which this thread offers to yield.
    #[serde(default)]
    pub preempt_ticks: Vec<u64>,
    /// (site index, n): this thread also offers to yield the n-th time it
    /// reaches that tick/probe site - preemption inside rarely taken paths.
    #[serde(default)]
    pub preempt_sites: Vec<(u32, u64)>,
    /// (rank, permille): further site-targeted yields, resolved when the
    /// scenario is executed against what a calibration rendering of the
    /// document actually reaches: the rank-th of the sites that were reached
    /// (modulo their number), at that fraction of its occurrences.  Sites
    /// that this document never reaches are not wasted on.
    #[serde(default)]
    pub preempt_hit: Vec<(u32, u32)>,
}

#[derive(Serialize, Deserialize, Clone, Debug, PartialEq, Eq)]
#[serde(tag = "policy")]
pub enum SchedSpec {
    /// uniform random choice among runnable threads at every point
    Random { seed: u64 },
    /// PCT-style: random priorities, `changes` priority change points
    Pct { seed: u64, changes: u32, horizon: u32 },
    /// stay on the current thread, switch with probability 1/den
    Sticky { seed: u64, den: u32 },
    /// strict alternation (round robin) at every point
    RoundRobin,
    /// explicit list of choices (replay); falls back to "stay" when it runs out
    Explicit { choices: Vec<u32> },
}

/// Another (document, configuration) pair used by part of the history; a
/// missing member means "the same as the base scenario's".  The decorator
/// kind is always the base configuration's.
#[derive(Serialize, Deserialize, Clone, Debug, PartialEq, Eq)]
pub struct Variant {
    #[serde(default)]
    pub doc: Option<DocSpec>,
    #[serde(default)]
    pub config: Option<ConfigSpec>,
}

#[derive(Serialize, Deserialize, Clone, Debug, PartialEq, Eq)]
pub struct Scenario {
    pub property: String,
    pub class: String,
    pub run_seed: u64,
    pub doc: DocSpec,
    pub config: ConfigSpec,
    pub threads: Vec<ThreadSpec>,
    pub sched: SchedSpec,
    pub fuel: u64,
    /// transport corruption events applied to the document when it was generated
    #[serde(default)]
    pub corrupt_events: u32,
    /// further (document, configuration) pairs, selected by `Op::Use`
    #[serde(default)]
    pub variants: Vec<Variant>,
    /// execute the whole scenario twice and require identical results
    /// (C10: "repeated calls give identical results")
    #[serde(default)]
    pub repeat_check: bool,
    /// compute the one-shot reference in a fresh process instead of this one,
    /// so that state which lives as long as the process (a static cache, an
    /// interning pool) and was left behind by earlier renderings - of this
    /// run or of earlier runs of the same worker - cannot make the reference
    /// wrong in the same way as the result it is compared with
    #[serde(default)]
    pub fresh_reference: bool,
    /// environment variables set (Some) or removed (None) in the executing
    /// process for the duration of the run: the rendering is a function of
    /// bytes, configuration and width, not of the process environment
    #[serde(default)]
    pub env: Vec<(String, Option<String>)>,
}

/// Environment variables the simulator may set, empty or remove.
pub const ENV_VARS: &[(&str, &str)] = &[
    ("NO_COLOR", "1"),
    ("CLICOLOR", "0"),
    ("CLICOLOR_FORCE", "1"),
    ("TERM", "dumb"),
    ("COLORTERM", "truecolor"),
    ("COLUMNS", "7"),
    ("LINES", "3"),
    ("LANG", "tr_TR.UTF-8"),
    ("LC_ALL", "ja_JP.eucJP"),
    ("LC_CTYPE", "C"),
    ("TZ", "Pacific/Kiritimati"),
    ("HOME", "/nonexistent"),
    ("TMPDIR", "/nonexistent"),
    ("RUST_LOG", "trace"),
    ("HTML2TEXT_WIDTH", "3"),
    ("WIDTH", "3"),
    ("USER", "nobody"),
    ("HOSTNAME", "elsewhere"),
    ("SHELL", "/bin/false"),
    ("DEBUG", "1"),
];

/// Draw a run's environment changes (none for three runs in four).
pub fn gen_env(er: &mut crate::prng::Rng) -> Vec<(String, Option<String>)> {
    if !er.chance(1, 4) {
        return vec![];
    }
    let n = er.urange(1, 3);
    let mut v: Vec<(String, Option<String>)> = Vec::new();
    for _ in 0..n {
        // the colour / terminal variables are the likeliest to be consulted
        let i = if er.chance(1, 2) { er.usize_below(5) } else { er.usize_below(ENV_VARS.len()) };
        let (k, val) = ENV_VARS[i];
        if v.iter().any(|(kk, _)| kk == k) {
            continue;
        }
        let val = match er.below(6) {
            0 => None,
            1 => Some(String::new()),
            2 => Some(er.pick(&["0", "1", "true", "never", "xterm-256color", "-1", "99999999999999999999", "\u{e9}"]).to_string()),
            _ => Some(val.to_string()),
        };
        v.push((k.to_string(), val));
    }
    v
}

impl Scenario {
    pub fn num_variants(&self) -> usize {
        1 + self.variants.len()
    }
    pub fn variant_doc(&self, v: usize) -> &DocSpec {
        if v == 0 {
            return &self.doc;
        }
        self.variants
            .get(v - 1)
            .and_then(|x| x.doc.as_ref())
            .unwrap_or(&self.doc)
    }
    pub fn variant_config(&self, v: usize) -> ConfigSpec {
        if v == 0 {
            return self.config.clone();
        }
        let mut c = self
            .variants
            .get(v - 1)
            .and_then(|x| x.config.clone())
            .unwrap_or_else(|| self.config.clone());
        c.decorator = self.config.decorator.clone();
        c
    }
}

#[derive(Serialize, Deserialize, Clone, Debug, PartialEq, Eq)]
pub struct Violation {
    pub property: String,
    /// panic | abort | fuel | hang | bad_result | mismatch | nondeterminism
    pub kind: String,
    /// stable identity used for minimisation and known-finding matching
    pub signature: String,
    pub detail: String,
}

#[derive(Serialize, Deserialize, Clone, Debug)]
pub struct ReplayFile {
    pub violation: Violation,
    pub scenario: Scenario,
    #[serde(default)]
    pub note: String,
}
