//! Executes one `Scenario` against the real library: spawns the simulated
//! caller threads on real OS threads (with the scenario's stack sizes),
//! installs the step clock, runs each thread's ops under the baton
//! scheduler and records what every op returned.

use crate::deco::{join_lines, AsciiDecorator, Built, SimDeco};
use crate::prng::fnv;
use crate::reader::{FaultStats, SimReader};
use crate::scenario::*;
use crate::sched::{Ctx, EventKind, RunLog, Shared};
use html2text::config::Config;
use html2text::render::{PlainDecorator, RichAnnotation, RichDecorator, TrivialDecorator};
use html2text::verif_hooks::{self, NUM_SITES};
use html2text::{Error, RcDom, RenderTree};
use std::cell::RefCell;
use std::collections::{HashMap, VecDeque};
use std::panic::{catch_unwind, resume_unwind, AssertUnwindSafe};
use std::rc::Rc;
use std::sync::{Arc, Mutex, Once};

#[derive(Clone, Debug, PartialEq, Eq, serde::Serialize, serde::Deserialize)]
pub enum Outcome {
    /// Ok(text) from a string-valued route
    Text(String),
    /// Ok(lines): joined text and a digest of the full tagged structure
    Lines { text: String, digest: u64 },
    TooNarrow,
    IoError(String),
    OtherErr(String),
    CssRejected,
    Panic { msg: String, loc: String },
    Fuel,
    /// op with no result (clone, drop, send ...) completed
    Unit,
    /// prerequisite missing (slot empty, route not available for decorator)
    Skipped,
}

impl Outcome {
    pub fn class(&self) -> &'static str {
        match self {
            Outcome::Text(_) => "ok_text",
            Outcome::Lines { .. } => "ok_lines",
            Outcome::TooNarrow => "too_narrow",
            Outcome::IoError(_) => "io_error",
            Outcome::OtherErr(_) => "other_err",
            Outcome::CssRejected => "css_rejected",
            Outcome::Panic { .. } => "panic",
            Outcome::Fuel => "fuel",
            Outcome::Unit => "unit",
            Outcome::Skipped => "skipped",
        }
    }
    pub fn text(&self) -> Option<&str> {
        match self {
            Outcome::Text(s) => Some(s),
            Outcome::Lines { text, .. } => Some(text),
            _ => None,
        }
    }
    pub fn hash(&self) -> u64 {
        match self {
            Outcome::Text(s) => fnv(s.as_bytes()),
            Outcome::Lines { text, digest } => fnv(text.as_bytes()) ^ digest.rotate_left(17),
            Outcome::Panic { msg, .. } => fnv(msg.as_bytes()) ^ 0x55,
            Outcome::IoError(s) | Outcome::OtherErr(s) => fnv(s.as_bytes()) ^ 0x77,
            other => fnv(other.class().as_bytes()),
        }
    }
}

#[derive(Clone, Debug)]
pub struct OpRecord {
    pub thread: u32,
    pub index: u32,
    pub name: &'static str,
    pub outcome: Outcome,
    /// number of document bytes this result is a function of
    pub limit: Option<usize>,
    pub width: Option<usize>,
    /// the simulated reader returned a hard error during this op
    pub reader_errored: bool,
    /// the tree came from `html2text::parse` (default context)
    pub free_tree: bool,
    /// which (document, configuration) variant this result belongs to
    pub variant: u32,
    /// text length (kept even when the text itself is dropped)
    pub text_len: usize,
    /// wall-clock microseconds (diagnostics only; never part of a verdict or hash)
    pub wall_us: u64,
}

pub struct RunResult {
    pub records: Vec<OpRecord>,
    pub config_outcome: Outcome,
    pub log: RunLog,
    pub stats: FaultStats,
    pub ticks_total: u64,
    pub ticks_max: u64,
    pub site_counts: [u64; NUM_SITES],
    pub threads: usize,
}

struct FuelExhausted;

thread_local! {
    static LAST_PANIC: RefCell<Option<(String, String)>> = const { RefCell::new(None) };
    static IN_OP: std::cell::Cell<bool> = const { std::cell::Cell::new(false) };
}

static HOOK: Once = Once::new();

pub fn install_panic_hook() {
    HOOK.call_once(|| {
        std::panic::set_hook(Box::new(|info| {
            let msg = if let Some(s) = info.payload().downcast_ref::<&str>() {
                s.to_string()
            } else if let Some(s) = info.payload().downcast_ref::<String>() {
                s.clone()
            } else {
                "<non-string panic payload>".to_string()
            };
            let loc = info
                .location()
                .map(|l| format!("{}:{}:{}", l.file(), l.line(), l.column()))
                .unwrap_or_else(|| "<unknown>".into());
            if IN_OP.with(|c| c.get()) {
                LAST_PANIC.with(|c| *c.borrow_mut() = Some((msg, loc)));
            } else {
                eprintln!("h2tsim: harness panic: {} at {}", msg, loc);
            }
        }));
    });
}

/// Run `f` (library code) catching panics and fuel exhaustion.
fn guarded<T>(f: impl FnOnce() -> T) -> Result<T, Outcome> {
    IN_OP.with(|c| c.set(true));
    LAST_PANIC.with(|c| *c.borrow_mut() = None);
    let r = catch_unwind(AssertUnwindSafe(f));
    IN_OP.with(|c| c.set(false));
    match r {
        Ok(v) => Ok(v),
        Err(payload) => {
            if payload.is::<FuelExhausted>() {
                Err(Outcome::Fuel)
            } else {
                let (msg, loc) = LAST_PANIC
                    .with(|c| c.borrow_mut().take())
                    .unwrap_or_else(|| ("<no message>".into(), "<unknown>".into()));
                Err(Outcome::Panic { msg, loc })
            }
        }
    }
}

fn map_err(e: Error) -> Outcome {
    match e {
        Error::TooNarrow => Outcome::TooNarrow,
        Error::IoError(e) => Outcome::IoError(format!("{:?}", e.kind())),
        other => Outcome::OtherErr(format!("{:?}", other)),
    }
}

struct Meta {
    limit: usize,
    free_tree: bool,
    variant: usize,
}

// ---- compile-time knowledge of the library's thread-safety promises ----
//
// Today `RenderTree: Send` and `Config<D>: Sync` (for `D: Sync`), which is what
// lets callers hand trees to other threads and share one Config.  A change to
// the library can silently withdraw either promise (an `Rc` somewhere inside).
// The simulator must still build then - and must not pretend the promise
// holds.  So the two facts are detected at compile time, and the wrappers
// below (which assert Send/Sync to the compiler) are only ever used across
// threads when the corresponding fact is true; otherwise hand-offs are
// skipped and every thread builds its own Config.
trait FallbackFalse {
    const YES: bool = false;
}
struct IsSend<T: ?Sized>(std::marker::PhantomData<T>);
impl<T: ?Sized + Send> IsSend<T> {
    #[allow(dead_code)]
    const YES: bool = true;
}
impl<T: ?Sized> FallbackFalse for IsSend<T> {}
struct IsSync<T: ?Sized>(std::marker::PhantomData<T>);
impl<T: ?Sized + Sync> IsSync<T> {
    #[allow(dead_code)]
    const YES: bool = true;
}
impl<T: ?Sized> FallbackFalse for IsSync<T> {}

/// Is `RenderTree` still `Send`?
pub const TREE_IS_SEND: bool = <IsSend<RenderTree>>::YES;
/// Is `Config<PlainDecorator>` still `Sync`?
pub const CONFIG_IS_SYNC: bool = <IsSync<Config<PlainDecorator>>>::YES;

/// A tree in transit between simulated threads.  SAFETY: only constructed
/// when `TREE_IS_SEND` (checked where trees are sent).
struct TreeInTransit(RenderTree);
unsafe impl Send for TreeInTransit {}

/// The shared configurations.  SAFETY: only dereferenced from a thread other
/// than the one that built them when `CONFIG_IS_SYNC`; otherwise each thread
/// builds its own.
struct SharedCfgs<'a, D: SimDeco>(&'a [Option<Config<D>>])
where
    D::Annotation: Send;
unsafe impl<'a, D: SimDeco> Send for SharedCfgs<'a, D> where D::Annotation: Send {}
unsafe impl<'a, D: SimDeco> Sync for SharedCfgs<'a, D> where D::Annotation: Send {}

pub struct Mailboxes {
    boxes: Mutex<Vec<VecDeque<(TreeInTransit, usize, bool, usize)>>>,
}

pub struct ExecOpts {
    /// keep rendered text in the records (C10 needs it, C01 does not)
    pub keep_text: bool,
    /// compute the tagged-structure digest for line-valued routes
    pub digest: bool,
    pub trace: bool,
}

fn ident(_: &[RichAnnotation], s: &str) -> String {
    s.to_string()
}

struct ThreadOut {
    records: Vec<OpRecord>,
    stats: FaultStats,
    ticks: u64,
    counts: [u64; NUM_SITES],
}

fn finish_text(o: Outcome, keep: bool) -> (Outcome, usize) {
    let len = o.text().map(|t| t.len()).unwrap_or(0);
    if keep {
        return (o, len);
    }
    // Replace the text by a short digest to bound memory.
    let o = match o {
        Outcome::Text(s) => Outcome::Text(format!("#{:016x}", fnv(s.as_bytes()))),
        Outcome::Lines { text, digest } => Outcome::Lines {
            text: format!("#{:016x}", fnv(text.as_bytes())),
            digest,
        },
        other => other,
    };
    (o, len)
}

fn install_clock(ctx: &Rc<Ctx>, fuel: u64, preempts: &[u64], site_preempts: &[(u32, u64)], multi: bool) {
    let mut pre: VecDeque<u64> = {
        let mut v = preempts.to_vec();
        v.sort_unstable();
        v.dedup();
        v.into()
    };
    let ctx2 = ctx.clone();
    // In multi-threaded runs the callback runs at every tick, so that a thread
    // which lost the baton while blocked on a lock of the code under test
    // parks again within one tick of waking up.
    // (in single-threaded runs at least every 2^12 steps, as a sign of life
    // for the stall watchdog)
    const LIFE: u64 = 1 << 12;
    let first = if multi { 1 } else { pre.front().copied().unwrap_or(u64::MAX).min(fuel).min(LIFE) };
    // per site: the sorted occurrence counts at which to yield
    let mut by_site: Vec<VecDeque<u64>> = vec![VecDeque::new(); NUM_SITES];
    for &(site, n) in site_preempts {
        if (site as usize) < NUM_SITES && n > 0 {
            by_site[site as usize].push_back(n);
        }
    }
    for q in by_site.iter_mut() {
        let mut v: Vec<u64> = q.drain(..).collect();
        v.sort_unstable();
        v.dedup();
        *q = v.into();
    }
    let arms: Vec<(usize, u64)> = by_site
        .iter()
        .enumerate()
        .filter_map(|(i, q)| q.front().map(|&n| (i, n)))
        .collect();
    verif_hooks::install(
        first,
        Box::new(move |t, site| {
            crate::sched::PROGRESS.fetch_add(1, std::sync::atomic::Ordering::Relaxed);
            if t >= fuel {
                if std::thread::panicking() {
                    return u64::MAX;
                }
                resume_unwind(Box::new(FuelExhausted));
            }
            if multi && !std::thread::panicking() {
                ctx2.check_baton();
            }
            let mut fired = false;
            while pre.front().is_some_and(|&p| p <= t) {
                pre.pop_front();
                fired = true;
            }
            // was this call made for an armed site occurrence?
            let si = site as usize;
            let count = verif_hooks::counts()[si];
            if by_site[si].front().is_some_and(|&n| n <= count) {
                while by_site[si].front().is_some_and(|&n| n <= count) {
                    by_site[si].pop_front();
                }
                if let Some(&n) = by_site[si].front() {
                    verif_hooks::arm_site(si, n);
                }
                fired = true;
            }
            if fired && !std::thread::panicking() {
                ctx2.with_stats(|s| s.preempt += 1);
                ctx2.yield_point(EventKind::Tick);
            }
            if multi {
                t + 1
            } else {
                pre.front().copied().unwrap_or(u64::MAX).min(fuel).min(t + LIFE)
            }
        }),
    );
    for (i, n) in arms {
        verif_hooks::arm_site(i, n);
    }
}

#[allow(clippy::too_many_arguments)]
fn run_thread<D: SimDeco>(
    tid: usize,
    tspec: &ThreadSpec,
    site_preempts: &[(u32, u64)],
    scen: &Scenario,
    docs: &[Vec<u8>],
    specs: &[ConfigSpec],
    shared_cfgs: SharedCfgs<'_, D>,
    shared: Arc<Shared>,
    mail: &Mailboxes,
    opts: &ExecOpts,
) -> ThreadOut
where
    D::Annotation: Send,
{
    let ctx = Rc::new(Ctx::new(tid, shared));
    ctx.start();
    // One Config shared by all caller threads - if the library still promises
    // that a Config can be shared; otherwise every thread gets its own.
    let own_cfgs: Vec<Option<Config<D>>>;
    let cfgs: &[Option<Config<D>>] = if CONFIG_IS_SYNC {
        shared_cfgs.0
    } else {
        own_cfgs = specs
            .iter()
            .zip(shared_cfgs.0.iter())
            .map(|(spec, theirs)| {
                if theirs.is_none() {
                    return None;
                }
                match guarded(|| D::build(spec)) {
                    Ok(Built::Ok(c)) => Some(c),
                    _ => None,
                }
            })
            .collect();
        &own_cfgs
    };
    install_clock(
        &ctx,
        scen.fuel,
        &tspec.preempt_ticks,
        site_preempts,
        scen.threads.len() > 1,
    );

    let mut doms: HashMap<Slot, (RcDom, Meta)> = HashMap::new();
    let mut trees: HashMap<Slot, (RenderTree, Meta)> = HashMap::new();
    let mut records = Vec::with_capacity(tspec.ops.len());
    let mut cur = 0usize;
    let mut dead = false;

    for (i, op) in tspec.ops.iter().enumerate() {
        if dead {
            break;
        }
        ctx.yield_point(EventKind::OpStart);
        let op_start = std::time::Instant::now();
        let mut limit = None;
        let mut width = None;
        let mut reader_errored = false;
        let mut free_tree = false;
        let mut variant = cur;
        let doc: &[u8] = &docs[cur];
        let spec = &specs[cur];
        let cfg: Option<&Config<D>> = cfgs[cur].as_ref();

        macro_rules! lines_outcome {
            ($r:expr) => {
                match $r {
                    Ok(lines) => {
                        let text = join_lines(&lines);
                        let digest = if opts.digest {
                            fnv(format!("{:?}", lines).as_bytes())
                        } else {
                            0
                        };
                        Outcome::Lines { text, digest }
                    }
                    Err(e) => map_err(e),
                }
            };
        }
        macro_rules! text_outcome {
            ($r:expr) => {
                match $r {
                    Ok(s) => Outcome::Text(s),
                    Err(e) => map_err(e),
                }
            };
        }

        let res: Result<Outcome, Outcome> = match op {
            Op::OneShotString { w, plan }
            | Op::OneShotLines { w, plan }
            | Op::OneShotColoured { w, plan }
            | Op::FreeFromRead { w, plan }
            | Op::FreeFromReadRich { w, plan }
            | Op::FreeFromReadColoured { w, plan }
            | Op::FreeWithDecorator { w, plan } => {
                limit = Some(plan.limit(doc.len()));
                width = Some(*w);
                let mut reader = SimReader::new(doc, plan, &ctx);
                let r = guarded(|| match op {
                    Op::OneShotString { .. } => match D::build(spec) {
                        Built::Ok(c) => text_outcome!(c.string_from_read(&mut reader, *w)),
                        Built::CssRejected => Outcome::CssRejected,
                        Built::Other(e) => Outcome::OtherErr(e),
                    },
                    Op::OneShotLines { .. } => match D::build(spec) {
                        Built::Ok(c) => lines_outcome!(c.lines_from_read(&mut reader, *w)),
                        Built::CssRejected => Outcome::CssRejected,
                        Built::Other(e) => Outcome::OtherErr(e),
                    },
                    Op::OneShotColoured { .. } => match D::build(spec) {
                        Built::Ok(c) => match D::coloured(c, &mut reader, *w) {
                            Some(r) => text_outcome!(r),
                            None => Outcome::Skipped,
                        },
                        Built::CssRejected => Outcome::CssRejected,
                        Built::Other(e) => Outcome::OtherErr(e),
                    },
                    Op::FreeFromRead { .. } => text_outcome!(html2text::from_read(&mut reader, *w)),
                    Op::FreeFromReadRich { .. } => {
                        lines_outcome!(html2text::from_read_rich(&mut reader, *w))
                    }
                    Op::FreeFromReadColoured { .. } => {
                        text_outcome!(html2text::from_read_coloured(&mut reader, *w, ident))
                    }
                    Op::FreeWithDecorator { .. } => text_outcome!(
                        html2text::from_read_with_decorator(&mut reader, *w, D::fresh(spec))
                    ),
                    _ => unreachable!(),
                });
                reader_errored = reader.errored;
                r
            }
            Op::FreeParse { plan, tree } => {
                let lim = plan.limit(doc.len());
                limit = Some(lim);
                free_tree = true;
                let mut reader = SimReader::new(doc, plan, &ctx);
                let r = guarded(|| html2text::parse(&mut reader));
                reader_errored = reader.errored;
                match r {
                    Ok(Ok(t)) => {
                        trees.insert(
                            *tree,
                            (
                                t,
                                Meta {
                                    limit: lim,
                                    free_tree: true,
                                    variant: cur,
                                },
                            ),
                        );
                        Ok(Outcome::Unit)
                    }
                    Ok(Err(e)) => Ok(map_err(e)),
                    Err(o) => Err(o),
                }
            }
            Op::ParseDom { plan, dom } => match cfg {
                None => Ok(Outcome::Skipped),
                Some(cfg) => {
                    let lim = plan.limit(doc.len());
                    limit = Some(lim);
                    let mut reader = SimReader::new(doc, plan, &ctx);
                    let r = guarded(|| cfg.parse_html(&mut reader));
                    reader_errored = reader.errored;
                    match r {
                        Ok(Ok(d)) => {
                            if let Some(old) = doms.insert(
                                *dom,
                                (
                                    d,
                                    Meta {
                                        limit: lim,
                                        free_tree: false,
                                        variant: cur,
                                    },
                                ),
                            ) {
                                let _ = guarded(move || drop(old));
                            }
                            Ok(Outcome::Unit)
                        }
                        Ok(Err(e)) => Ok(map_err(e)),
                        Err(o) => Err(o),
                    }
                }
            },
            Op::BuildTree { dom, tree } => match doms.get(dom) {
                // the tree is built with the configuration the DOM was parsed under
                Some((d, meta)) if cfgs[meta.variant].is_some() => {
                    let cfg = cfgs[meta.variant].as_ref().unwrap();
                    limit = Some(meta.limit);
                    variant = meta.variant;
                    let lim = meta.limit;
                    let var = meta.variant;
                    match guarded(|| cfg.dom_to_render_tree(d)) {
                        Ok(Ok(t)) => {
                            trees.insert(
                                *tree,
                                (
                                    t,
                                    Meta {
                                        limit: lim,
                                        free_tree: false,
                                        variant: var,
                                    },
                                ),
                            );
                            Ok(Outcome::Unit)
                        }
                        Ok(Err(e)) => Ok(map_err(e)),
                        Err(o) => Err(o),
                    }
                }
                _ => Ok(Outcome::Skipped),
            },
            Op::CloneTree { from, to } => match trees.get(from) {
                Some((t, meta)) => {
                    let m = Meta {
                        limit: meta.limit,
                        free_tree: meta.free_tree,
                        variant: meta.variant,
                    };
                    limit = Some(meta.limit);
                    variant = meta.variant;
                    match guarded(|| t.clone()) {
                        Ok(c) => {
                            trees.insert(*to, (c, m));
                            Ok(Outcome::Unit)
                        }
                        Err(o) => Err(o),
                    }
                }
                None => Ok(Outcome::Skipped),
            },
            Op::RenderString { tree, w, consume }
            | Op::RenderLines { tree, w, consume }
            | Op::RenderColoured { tree, w, consume } => {
                width = Some(*w);
                let got = if *consume {
                    trees.remove(tree)
                } else {
                    match trees.get(tree) {
                        Some((t, meta)) => {
                            let m = Meta {
                                limit: meta.limit,
                                free_tree: meta.free_tree,
                                variant: meta.variant,
                            };
                            match guarded(|| t.clone()) {
                                Ok(c) => Some((c, m)),
                                Err(o) => {
                                    // clone itself failed: report under this op
                                    limit = Some(meta.limit);
                                    let (o, len) = finish_text(o, opts.keep_text);
                                    ctx.log(EventKind::OpDone, o.hash());
                                    if matches!(o, Outcome::Fuel) {
                                        dead = true;
                                    }
                                    records.push(OpRecord {
                                        thread: tid as u32,
                                        index: i as u32,
                                        name: op.name(),
                                        outcome: o,
                                        limit,
                                        width,
                                        reader_errored,
                                        free_tree,
                                        variant: meta.variant as u32,
                                        text_len: len,
                                        wall_us: 0,
                                    });
                                    continue;
                                }
                            }
                        }
                        None => None,
                    }
                };
                match got {
                    // rendered with the configuration the tree was built under
                    Some((t, meta)) if cfgs[meta.variant].is_some() => {
                        let cfg = cfgs[meta.variant].as_ref().unwrap();
                        limit = Some(meta.limit);
                        free_tree = meta.free_tree;
                        variant = meta.variant;
                        guarded(|| match op {
                            Op::RenderString { .. } => text_outcome!(cfg.render_to_string(t, *w)),
                            Op::RenderLines { .. } => lines_outcome!(cfg.render_to_lines(t, *w)),
                            Op::RenderColoured { .. } => match D::render_coloured(cfg, t, *w) {
                                Some(r) => text_outcome!(r),
                                None => Outcome::Skipped,
                            },
                            _ => unreachable!(),
                        })
                    }
                    _ => Ok(Outcome::Skipped),
                }
            }
            Op::Use { variant: v } => {
                cur = (*v as usize) % docs.len();
                variant = cur;
                Ok(Outcome::Unit)
            }
            Op::DropDom { dom } => match doms.remove(dom) {
                Some(d) => guarded(move || drop(d)).map(|_| Outcome::Unit),
                None => Ok(Outcome::Skipped),
            },
            Op::DropTree { tree } => match trees.remove(tree) {
                Some(t) => guarded(move || drop(t)).map(|_| Outcome::Unit),
                None => Ok(Outcome::Skipped),
            },
            Op::SendTree { tree, to } if !TREE_IS_SEND => {
                // the library no longer promises that trees can change threads
                let _ = (tree, to);
                Ok(Outcome::Skipped)
            }
            Op::SendTree { tree, to } => match trees.remove(tree) {
                Some((t, meta)) => {
                    let mut b = mail.boxes.lock().unwrap();
                    let to = (*to as usize) % b.len();
                    b[to].push_back((TreeInTransit(t), meta.limit, meta.free_tree, meta.variant));
                    ctx.with_stats(|s| s.handoffs += 1);
                    ctx.log(EventKind::Handoff, to as u64);
                    Ok(Outcome::Unit)
                }
                None => Ok(Outcome::Skipped),
            },
            Op::RecvTree { tree } => {
                // Non-blocking receive with a bounded number of polite
                // retries: each retry is a scheduling point, so whether the
                // tree has arrived is decided by the schedule, and the
                // simulator cannot deadlock itself.
                let mut got = mail.boxes.lock().unwrap()[tid].pop_front();
                let mut tries = 0;
                while got.is_none() && tries < 48 {
                    tries += 1;
                    ctx.yield_point(EventKind::Handoff);
                    got = mail.boxes.lock().unwrap()[tid].pop_front();
                }
                match got {
                    Some((TreeInTransit(t), lim, ft, var)) => {
                        if let Some(old) = trees.insert(
                            *tree,
                            (
                                t,
                                Meta {
                                    limit: lim,
                                    free_tree: ft,
                                    variant: var,
                                },
                            ),
                        ) {
                            let _ = guarded(move || drop(old));
                        }
                        Ok(Outcome::Unit)
                    }
                    None => Ok(Outcome::Skipped),
                }
            }
        };
        let outcome = match res {
            Ok(o) => o,
            Err(o) => o,
        };
        if matches!(outcome, Outcome::Fuel) {
            dead = true;
        }
        let (outcome, len) = finish_text(outcome, opts.keep_text);
        ctx.log(EventKind::OpDone, outcome.hash());
        records.push(OpRecord {
            thread: tid as u32,
            index: i as u32,
            name: op.name(),
            outcome,
            limit,
            width,
            reader_errored,
            free_tree,
            variant: variant as u32,
            text_len: len,
            wall_us: op_start.elapsed().as_micros() as u64,
        });
    }
    // Drop whatever is left under guard too (drops are where deep trees bite).
    let leftovers = (doms, trees);
    if let Err(o) = guarded(move || drop(leftovers)) {
        records.push(OpRecord {
            thread: tid as u32,
            index: tspec.ops.len() as u32,
            name: "FinalDrop",
            outcome: o,
            limit: None,
            width: None,
            reader_errored: false,
            free_tree: false,
            variant: 0,
            text_len: 0,
            wall_us: 0,
        });
    }
    let ticks = verif_hooks::ticks();
    let counts = verif_hooks::counts();
    verif_hooks::uninstall();
    let stats = ctx.stats();
    ctx.finish();
    ThreadOut {
        records,
        stats,
        ticks,
        counts,
    }
}

fn run_with<D: SimDeco>(scen: &Scenario, opts: &ExecOpts) -> RunResult
where
    D::Annotation: Send,
{
    install_panic_hook();
    let n = scen.threads.len().max(1);
    // Build the shared configuration under the step clock too: add_css runs
    // the CSS parser, which is part of C01's surface.
    let needs_cfg = scen.threads.iter().any(|t| {
        t.ops.iter().any(|o| {
            matches!(
                o,
                Op::ParseDom { .. }
                    | Op::BuildTree { .. }
                    | Op::RenderString { .. }
                    | Op::RenderLines { .. }
                    | Op::RenderColoured { .. }
            )
        })
    });
    let nvar = scen.num_variants();
    let docs: Vec<Vec<u8>> = (0..nvar).map(|v| scen.variant_doc(v).materialise()).collect();
    let specs: Vec<ConfigSpec> = (0..nvar).map(|v| scen.variant_config(v)).collect();
    let mut config_outcome = Outcome::Unit;
    let mut cfg_ticks = 0;
    let mut cfg_counts = [0u64; NUM_SITES];
    let mut cfgs: Vec<Option<Config<D>>> = Vec::new();
    for spec in &specs {
        if !needs_cfg {
            cfgs.push(None);
            continue;
        }
        let fuel = scen.fuel;
        verif_hooks::install(
            fuel,
            Box::new(move |t, _| {
                if t >= fuel && !std::thread::panicking() {
                    resume_unwind(Box::new(FuelExhausted));
                }
                u64::MAX
            }),
        );
        let r = guarded(|| D::build(spec));
        cfg_ticks += verif_hooks::ticks();
        let c = verif_hooks::counts();
        for i in 0..NUM_SITES {
            cfg_counts[i] += c[i];
        }
        verif_hooks::uninstall();
        cfgs.push(match r {
            Ok(Built::Ok(c)) => Some(c),
            Ok(Built::CssRejected) => {
                if matches!(config_outcome, Outcome::Unit) {
                    config_outcome = Outcome::CssRejected;
                }
                None
            }
            Ok(Built::Other(e)) => {
                config_outcome = Outcome::OtherErr(e);
                None
            }
            Err(o) => {
                config_outcome = o;
                None
            }
        });
    }

    // Site-targeted preemption "where this document goes": one calibration
    // rendering (reference route, this thread, before anything is scheduled)
    // tells which tick and probe sites are reached and how often; the abstract
    // (rank, permille) entries of each thread become (site, n-th occurrence).
    let mut resolved_sites: Vec<Vec<(u32, u64)>> = scen.threads.iter().map(|t| t.preempt_sites.clone()).collect();
    if scen.threads.iter().any(|t| !t.preempt_hit.is_empty()) && !docs.is_empty() {
        let w0 = scen
            .threads
            .iter()
            .flat_map(|t| t.ops.iter())
            .find_map(|o| match o {
                Op::OneShotString { w, .. }
                | Op::OneShotLines { w, .. }
                | Op::OneShotColoured { w, .. }
                | Op::RenderString { w, .. }
                | Op::RenderLines { w, .. }
                | Op::RenderColoured { w, .. } => Some(*w),
                _ => None,
            })
            .unwrap_or(40);
        let _ = reference(&specs[0], &docs[0], docs[0].len(), w0, scen.fuel);
        let counts = verif_hooks::counts();
        let hit: Vec<usize> = (0..NUM_SITES).filter(|&i| counts[i] > 0).collect();
        if !hit.is_empty() {
            for (t, out) in scen.threads.iter().zip(resolved_sites.iter_mut()) {
                for &(rank, permille) in &t.preempt_hit {
                    let site = hit[rank as usize % hit.len()];
                    let nth = 1 + (counts[site] - 1) * (permille.min(999) as u64) / 1000;
                    out.push((site as u32, nth));
                }
            }
        }
        verif_hooks::reset();
    }
    let resolved_ref = &resolved_sites[..];

    let shared = Shared::new(n, &scen.sched, opts.trace);
    let mail = Mailboxes {
        boxes: Mutex::new((0..n).map(|_| VecDeque::new()).collect()),
    };
    let (docs_ref, specs_ref) = (&docs[..], &specs[..]);
    let cfgs_shared = &cfgs[..];
    let outs: Vec<ThreadOut> = std::thread::scope(|s| {
        let mut handles = Vec::new();
        for (tid, tspec) in scen.threads.iter().enumerate() {
            let shared = shared.clone();
            let mail = &mail;
            let h = std::thread::Builder::new()
                .name(format!("sim{}", tid))
                .stack_size(tspec.stack_kib as usize * 1024)
                .spawn_scoped(s, move || {
                    let sc = SharedCfgs(cfgs_shared);
                    run_thread::<D>(tid, tspec, &resolved_ref[tid], scen, docs_ref, specs_ref, sc, shared, mail, opts)
                })
                .expect("spawn simulated thread");
            handles.push(h);
        }
        shared.release();
        handles
            .into_iter()
            .map(|h| h.join().expect("simulated thread died outside an op (harness bug)"))
            .collect()
    });
    // Leftover trees in mailboxes and the shared config are dropped here, guarded.
    let rest = std::mem::take(&mut *mail.boxes.lock().unwrap());
    let mut records: Vec<OpRecord> = Vec::new();
    if let Err(o) = guarded(move || drop(rest)) {
        records.push(OpRecord {
            thread: 0,
            index: u32::MAX,
            name: "MailboxDrop",
            outcome: o,
            limit: None,
            width: None,
            reader_errored: false,
            free_tree: false,
            variant: 0,
            text_len: 0,
            wall_us: 0,
        });
    }
    let mut stats = FaultStats::default();
    let mut ticks_total = cfg_ticks;
    let mut ticks_max = cfg_ticks;
    let mut site_counts = cfg_counts;
    for o in outs {
        records.extend(o.records);
        stats.add(&o.stats);
        ticks_total += o.ticks;
        ticks_max = ticks_max.max(o.ticks);
        for i in 0..NUM_SITES {
            site_counts[i] += o.counts[i];
        }
    }
    let log = shared.finish_log();
    RunResult {
        records,
        config_outcome,
        log,
        stats,
        ticks_total,
        ticks_max,
        site_counts,
        threads: n,
    }
}

/// Execute a scenario in this process.
/// The document a re-entering reader converts (`ReadStep::Reenter`).
const NESTED_DOC: &[u8] = b"<style>.h{display:none;} b{color:#f00;}</style><h1 id=t>n</h1><p>nested <b>call</b> <i class=h>hidden</i> <a href='u'>l</a></p><table><tr><td>x</td><td>y z</td></tr></table><ul><li>i</li></ul><pre>a\tb</pre>";
static NESTED_EXPECT: std::sync::OnceLock<String> = std::sync::OnceLock::new();

fn nested_render() -> String {
    let plain = format!("{:?}", html2text::from_read(NESTED_DOC, 17));
    let styled = format!(
        "{:?}",
        html2text::config::rich().use_doc_css().lines_from_read(NESTED_DOC, 9)
    );
    format!("{} / {}", plain, styled)
}

/// Called by the simulated reader from inside a `read()`: a complete nested
/// conversion, whose result must be what the same conversion gives on a quiet
/// system (computed once, before any run).  A panic in the nested call, or a
/// different result, unwinds through the outer call and is that op's outcome.
pub fn nested_call() {
    let got = nested_render();
    let exp = NESTED_EXPECT.get_or_init(nested_render);
    if &got != exp {
        panic!(
            "a conversion started by the reader while another conversion was reading its input returned a different result: {} instead of {}",
            got, exp
        );
    }
}

pub fn run_scenario(scen: &Scenario, opts: &ExecOpts) -> RunResult {
    // (the expected result of nested conversions is fixed outside any call)
    NESTED_EXPECT.get_or_init(nested_render);
    match scen.config.decorator {
        Deco::Plain | Deco::PlainNoDecorate => run_with::<PlainDecorator>(scen, opts),
        Deco::Rich => run_with::<RichDecorator>(scen, opts),
        Deco::Trivial => run_with::<TrivialDecorator>(scen, opts),
        Deco::Custom { .. } => run_with::<AsciiDecorator>(scen, opts),
    }
}

/// The reference model for C10: the trivial one-shot delivery on a quiet
/// system (no hooks, no faults, calling thread).  Returns (string outcome,
/// lines outcome).
pub fn reference(config: &ConfigSpec, doc: &[u8], limit: usize, w: usize, fuel: u64) -> (Outcome, Outcome) {
    install_panic_hook();
    // Only a fuel bound (so that a non-terminating render cannot hang the
    // oracle); no preemption, no faults.
    verif_hooks::install(
        fuel,
        Box::new(move |t, _| {
            if t >= fuel && !std::thread::panicking() {
                resume_unwind(Box::new(FuelExhausted));
            }
            u64::MAX
        }),
    );
    let r = reference_inner(config, doc, limit, w);
    verif_hooks::uninstall();
    r
}

fn reference_inner(config: &ConfigSpec, doc: &[u8], limit: usize, w: usize) -> (Outcome, Outcome) {
    fn go<D: SimDeco>(spec: &ConfigSpec, d: &[u8], w: usize) -> (Outcome, Outcome)
    where
        D::Annotation: Send,
    {
        let s = guarded(|| match D::build(spec) {
            Built::Ok(c) => match c.string_from_read(d, w) {
                Ok(s) => Outcome::Text(s),
                Err(e) => map_err(e),
            },
            Built::CssRejected => Outcome::CssRejected,
            Built::Other(e) => Outcome::OtherErr(e),
        })
        .unwrap_or_else(|o| o);
        if matches!(s, Outcome::Fuel) {
            // the clock is disarmed after it fired; do not run unbounded
            return (Outcome::Fuel, Outcome::Fuel);
        }
        let l = guarded(|| match D::build(spec) {
            Built::Ok(c) => match c.lines_from_read(d, w) {
                Ok(lines) => Outcome::Lines {
                    text: join_lines(&lines),
                    digest: fnv(format!("{:?}", lines).as_bytes()),
                },
                Err(e) => map_err(e),
            },
            Built::CssRejected => Outcome::CssRejected,
            Built::Other(e) => Outcome::OtherErr(e),
        })
        .unwrap_or_else(|o| o);
        (s, l)
    }
    let d = &doc[..limit.min(doc.len())];
    match config.decorator {
        Deco::Plain | Deco::PlainNoDecorate => go::<PlainDecorator>(config, d, w),
        Deco::Rich => go::<RichDecorator>(config, d, w),
        Deco::Trivial => go::<TrivialDecorator>(config, d, w),
        Deco::Custom { .. } => go::<AsciiDecorator>(config, d, w),
    }
}
