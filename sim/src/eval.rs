//! Generate / execute / judge one run; shared by the worker, the replayer,
//! the minimiser and the self-tests.

use crate::exec::{run_scenario, ExecOpts, RunResult};
use crate::prng::mix;
use crate::reader::FaultStats;
use crate::scenario::{Scenario, Violation};
use crate::{c01, c10};

pub fn prop_num(prop: &str) -> u64 {
    match prop {
        "C01" => 1,
        "C10" => 10,
        _ => 0,
    }
}

pub fn run_seed(verif_seed: u64, prop: &str, index: u64) -> u64 {
    mix(&[verif_seed, prop_num(prop), index])
}

pub fn generate(prop: &str, verif_seed: u64, index: u64, quick: bool) -> Scenario {
    let rs = run_seed(verif_seed, prop, index);
    match prop {
        "C01" => c01::generate(rs, quick),
        "C10" => c10::generate(rs),
        _ => panic!("unknown property {}", prop),
    }
}

pub struct Eval {
    pub violation: Option<Violation>,
    pub res: RunResult,
    pub compared: u64,
    pub discarded: bool,
    /// peak of live heap bytes above the level at the start of the run, and
    /// allocator calls (set by the driver's `evaluate_watched`)
    pub peak_bytes: u64,
    pub alloc_calls: u64,
}

/// Applies a scenario's environment changes to this process and undoes them
/// when dropped.  Called while the process has no simulated threads.
struct EnvGuard(Vec<(String, Option<std::ffi::OsString>)>);

impl EnvGuard {
    fn apply(scen: &Scenario) -> EnvGuard {
        let mut saved = Vec::new();
        for (k, v) in &scen.env {
            saved.push((k.clone(), std::env::var_os(k)));
            match v {
                Some(v) => std::env::set_var(k, v),
                None => std::env::remove_var(k),
            }
        }
        EnvGuard(saved)
    }
}

impl Drop for EnvGuard {
    fn drop(&mut self) {
        for (k, old) in self.0.drain(..).rev() {
            match old {
                Some(v) => std::env::set_var(&k, v),
                None => std::env::remove_var(&k),
            }
        }
    }
}

pub fn evaluate(scen: &Scenario, trace: bool) -> Eval {
    let _env = EnvGuard::apply(scen);
    let c10 = scen.property == "C10";
    let opts = ExecOpts {
        keep_text: c10,
        digest: c10,
        trace,
    };
    let res = run_scenario(scen, &opts);
    if c10 && scen.repeat_check {
        // Same scenario, same schedule, fresh threads: every op must return
        // exactly what it returned the first time.
        let res2 = run_scenario(scen, &opts);
        let differ = res
            .records
            .iter()
            .zip(res2.records.iter())
            .find(|(a, b)| a.outcome != b.outcome || a.name != b.name);
        if let Some((a, b)) = differ {
            let v = Violation {
                property: "C10".into(),
                kind: "nondeterminism".into(),
                signature: format!("nondeterminism:{}", a.name),
                detail: format!(
                    "the same scenario executed twice in one process gave different results: thread {} op #{} {} at width {:?} returned {} ({} bytes) the first time and {} ({} bytes) the second time",
                    a.thread,
                    a.index,
                    a.name,
                    a.width,
                    a.outcome.class(),
                    a.text_len,
                    b.outcome.class(),
                    b.text_len
                ),
            };
            return Eval {
                violation: Some(v),
                res,
                compared: 0,
                discarded: false,
                peak_bytes: 0,
                alloc_calls: 0,
            };
        }
    }
    if c10 {
        let v = c10::check(scen, &res);
        Eval {
            violation: v.violation,
            res,
            compared: v.compared,
            discarded: v.discarded,
            peak_bytes: 0,
            alloc_calls: 0,
        }
    } else {
        let v = c01::check(scen, &res);
        Eval {
            violation: v.violation,
            res,
            compared: 0,
            discarded: false,
            peak_bytes: 0,
            alloc_calls: 0,
        }
    }
}

/// Fingerprint of the whole event log (every read result, scheduling
/// decision and op outcome).
pub fn fingerprint(res: &RunResult) -> u64 {
    res.log.log_hash
}

/// A run is non-trivial if the environment did something the test suite
/// never does: a fault fired, some read was short, a stream arrived in two
/// or more chunks, or a preemption / thread switch happened.
pub fn nontrivial(res: &RunResult, scen: &Scenario) -> bool {
    let s: &FaultStats = &res.stats;
    s.short + s.eintr + s.scribble + s.hard_error + s.cut + s.preempt + s.switches > 0
        || scen.corrupt_events > 0
        || s.chunks > count_reader_ops(scen)
        || scen.doc.depth() > 0
}

fn count_reader_ops(scen: &Scenario) -> u64 {
    scen.threads
        .iter()
        .map(|t| t.ops.iter().filter(|o| o.plan().is_some()).count() as u64)
        .sum::<u64>()
        .max(1)
}

/// Experiment knob (never set by the registered checks): override the fuel
/// written into generated scenarios.
pub fn fuel_override() -> Option<u64> {
    std::env::var("H2TSIM_FUEL").ok().and_then(|s| s.parse().ok())
}
